package config

// Replay for obligation config.(*RootConfig).Initialize/loop-step (sub-package exclusion is a
// per-package parameter, C07/C08): a package-level exclude-subpkg-regex is ignored (defect D9).
//   cd /repo && echo '{"Replace":{"/repo/config/zz_replay_test.go":"/verif/findings/c07_d9_test.go"}}' > ov.json \
//     && GOPROXY=off go test -overlay ov.json -vet=off -timeout 120s -run 'TestReplayC07' ./config/

import (
	"context"
	"testing"
)

func wfConfig() Config {
	return Config{
		All: addr(false), BuildTags: addr(""), ConfigFile: addr(""), Dir: addr("."), ExcludeInterfaceRegex: addr(""),
		FileName: addr("mocks_test.go"), ForceFileWrite: addr(false), Formatter: addr("goimports"), IncludeInterfaceRegex: addr(""),
		LogLevel: addr("info"), StructName: addr("Mock"), PkgName: addr("p"), Recursive: addr(false),
		RequireTemplateSchemaExists: addr(true), Template: addr("testify"), TemplateSchema: addr(""), TemplateData: map[string]any{},
	}
}

const base = "github.com/vektra/mockery/v3/internal/fixtures/example_project/pkg_with_subpkgs"

func TestReplayC07_PackageLevelExcludeSubpkgRegex(t *testing.T) {
	root := &RootConfig{
		Config: wfConfig(),
		Packages: map[string]*PackageConfig{
			base: {Config: &Config{Recursive: addr(true), ExcludeSubpkgRegex: []string{"subpkg3"}}},
		},
	}
	if err := root.Initialize(context.Background()); err != nil {
		t.Fatal(err)
	}
	if _, ok := root.Packages[base+"/subpkg2/subpkg3"]; ok {
		t.Fatalf("sub-package subpkg2/subpkg3 was added although the recursive package's own exclude-subpkg-regex [subpkg3] matches it")
	}
	if _, ok := root.Packages[base+"/subpkg1"]; !ok {
		t.Fatalf("sub-package subpkg1 should have been added")
	}
}

func TestReplayC07_TopLevelExcludeSubpkgRegexStillApplies(t *testing.T) {
	c := wfConfig()
	c.ExcludeSubpkgRegex = []string{"subpkg3"}
	root := &RootConfig{
		Config:   c,
		Packages: map[string]*PackageConfig{base: {Config: &Config{Recursive: addr(true)}}},
	}
	if err := root.Initialize(context.Background()); err != nil {
		t.Fatal(err)
	}
	if _, ok := root.Packages[base+"/subpkg2/subpkg3"]; ok {
		t.Fatalf("top-level exclude-subpkg-regex no longer applies to a recursive package that does not set its own")
	}
}
