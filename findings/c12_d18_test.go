package internal

// Replay for obligation internal.(*TemplateGenerator).getTemplate/ensures#schemaurl (defect D18, C12):
// the remote-template cache is keyed by the template name only, so a second output file that uses
// the same custom template with another template-schema is validated against the first one's schema.
//   cd /repo && echo '{"Replace":{"/repo/internal/zz_replay_test.go":"/verif/findings/c12_d18_test.go"}}' > ov.json \
//     && GOPROXY=off go test -overlay ov.json -vet=off -timeout 120s -run 'TestReplayC12' ./internal/

import (
	"context"
	"os"
	"path/filepath"
	"testing"

	"github.com/vektra/mockery/v3/template"
)

func TestReplayC12_SchemaOfTheSecondFileIsItsOwn(t *testing.T) {
	dir := t.TempDir()
	write := func(name, content string) string {
		p := filepath.Join(dir, name)
		if err := os.WriteFile(p, []byte(content), 0o644); err != nil {
			t.Fatal(err)
		}
		return "file://" + p
	}
	tmpl := write("t.templ", "package {{.PkgName}}\n")
	loose := write("loose.schema.json", `{"type":"object"}`)
	strict := write("strict.schema.json", `{"type":"object","required":["must-have"],"properties":{"must-have":{"type":"string"}}}`)
	cache := map[string]*RemoteTemplate{}
	g1 := &TemplateGenerator{templateName: tmpl, templateSchema: loose, requireSchemaExists: true, remoteTemplateCache: cache}
	g2 := &TemplateGenerator{templateName: tmpl, templateSchema: strict, requireSchemaExists: true, remoteTemplateCache: cache}
	ctx := context.Background()
	if _, _, err := g1.getTemplate(ctx); err != nil {
		t.Fatal(err)
	}
	_, schema2, err := g2.getTemplate(ctx)
	if err != nil {
		t.Fatal(err)
	}
	data := template.Data{TemplateData: template.TemplateData{"other": "x"}}
	if err := validateSchema(ctx, data, schema2); err == nil {
		t.Fatalf("template-data without the key required by %s was accepted: the schema of the first output file (%s) was used", strict, loose)
	}
}
