package cmd

// Replay of finding D12b (property C03; the compile failure is also a C01 finding), testify template:
// the return-value extraction declared its locals as "returnFunc, ok :=" regardless of the method's
// parameter names. A parameter named ok was shadowed, so a RunAndReturn/Return provider function
// received true instead of the argument; a parameter named returnFunc made the file not compile.
//   cd /repo && echo '{"Replace":{"/repo/internal/cmd/zz_replay_test.go":"/verif/findings/c03_d12b_test.go"}}' > ov.json \
//     && GOPROXY=off go test -overlay ov.json -vet=off -timeout 300s -run 'TestReplayD12b' ./internal/cmd/

import (
	"context"
	"os"
	"os/exec"
	"path/filepath"
	"strings"
	"testing"

	"github.com/spf13/pflag"
)

func TestReplayD12bShadowedParameters(t *testing.T) {
	repoRoot, err := filepath.Abs(filepath.Join("..", ".."))
	if err != nil {
		t.Fatal(err)
	}
	root := t.TempDir()
	gomod, _ := os.ReadFile(filepath.Join(repoRoot, "go.mod"))
	ver := "v1.10.0"
	for _, ln := range strings.Split(string(gomod), "\n") {
		f := strings.Fields(ln)
		if len(f) >= 2 && f[0] == "github.com/stretchr/testify" {
			ver = f[1]
		}
	}
	gosum, _ := os.ReadFile(filepath.Join(repoRoot, "go.sum"))
	files := map[string]string{
		"go.mod": "module example.com/d12\n\ngo 1.23\n\nrequire github.com/stretchr/testify " + ver + "\n",
		"go.sum": string(gosum),
		"a/a.go": "package a\n\ntype Checker interface {\n\tCheck(ok bool) bool\n\tRun(returnFunc string) error\n}\n",
		"a/a_test.go": `package a

import "testing"

func TestProviderSeesTheArgument(t *testing.T) {
	m := NewMockChecker(t)
	m.EXPECT().Check(false).RunAndReturn(func(ok bool) bool { return ok })
	if got := m.Check(false); got != false {
		t.Fatalf("Check(false) with RunAndReturn(identity) = %v: the provider did not receive the argument", got)
	}
	m.EXPECT().Run("x").Return(nil)
	if err := m.Run("x"); err != nil {
		t.Fatal(err)
	}
}
`,
		".mockery.yml": "formatter: goimports\nforce-file-write: true\ntemplate: testify\npackages:\n  example.com/d12/a:\n    config:\n      all: true\n",
	}
	for rel, content := range files {
		p := filepath.Join(root, rel)
		if err := os.MkdirAll(filepath.Dir(p), 0o755); err != nil {
			t.Fatal(err)
		}
		if err := os.WriteFile(p, []byte(content), 0o644); err != nil {
			t.Fatal(err)
		}
	}
	oldwd, _ := os.Getwd()
	if err := os.Chdir(root); err != nil {
		t.Fatal(err)
	}
	defer os.Chdir(oldwd)
	t.Setenv("GOWORK", "off")
	t.Setenv("GOFLAGS", "-mod=mod")
	t.Setenv("GOPROXY", "off")
	flags := pflag.NewFlagSet("d12", pflag.ContinueOnError)
	flags.String("config", "", "")
	if err := flags.Parse([]string{"--config", filepath.Join(root, ".mockery.yml")}); err != nil {
		t.Fatal(err)
	}
	app, err := GetRootApp(context.Background(), flags)
	if err != nil {
		t.Fatalf("GetRootApp: %v", err)
	}
	if err := app.Run(); err != nil {
		t.Fatalf("mockery: %v", err)
	}
	cmd := exec.Command("go", "test", "-count=1", "./a/")
	cmd.Dir = root
	if out, err := cmd.CombinedOutput(); err != nil {
		t.Fatalf("the generated mock does not compile or shadows its parameters: %v\n%s", err, out)
	}
}
