package cmd

// Witness of known finding D7 (property C08: a more specific level overrides a less specific one).
// This test FAILS on the current tree: an interface-level "template: matryer" is ignored, because
// RootApp.Run builds each file's generator from the package-level template.
//   cd /repo && echo '{"Replace":{"/repo/internal/cmd/zz_replay_test.go":"/verif/findings/c08_d7_test.go"}}' > ov.json \
//     && GOPROXY=off go test -overlay ov.json -vet=off -timeout 120s -run 'TestWitnessD7' ./internal/cmd/

import (
	"context"
	"os"
	"path/filepath"
	"strings"
	"testing"

	"github.com/spf13/pflag"
)

func TestWitnessD7_InterfaceLevelTemplateWins(t *testing.T) {
	root := t.TempDir()
	files := map[string]string{
		"go.mod":   "module example.com/d7\n\ngo 1.21\n",
		"a/a.go":   "package a\n\ntype A interface{ M(x int) string }\n",
		".mockery.yml": "formatter: noop\nforce-file-write: true\ntemplate: testify\npackages:\n  example.com/d7/a:\n    interfaces:\n      A:\n        config:\n          template: matryer\n",
	}
	for rel, content := range files {
		p := filepath.Join(root, rel)
		if err := os.MkdirAll(filepath.Dir(p), 0o755); err != nil {
			t.Fatal(err)
		}
		if err := os.WriteFile(p, []byte(content), 0o644); err != nil {
			t.Fatal(err)
		}
	}
	oldwd, _ := os.Getwd()
	if err := os.Chdir(root); err != nil {
		t.Fatal(err)
	}
	t.Cleanup(func() { _ = os.Chdir(oldwd) })
	t.Setenv("GOWORK", "off")
	t.Setenv("GOFLAGS", "")
	flags := pflag.NewFlagSet("d7", pflag.ContinueOnError)
	flags.String("config", "", "")
	if err := flags.Parse([]string{"--config", filepath.Join(root, ".mockery.yml")}); err != nil {
		t.Fatal(err)
	}
	app, err := GetRootApp(context.Background(), flags)
	if err != nil {
		t.Fatalf("GetRootApp: %v", err)
	}
	if err := app.Run(); err != nil {
		t.Fatalf("Run: %v", err)
	}
	out, err := os.ReadFile(filepath.Join(root, "a", "mocks_test.go"))
	if err != nil {
		t.Fatal(err)
	}
	// the matryer template produces a struct with an MFunc field; testify produces EXPECT()
	if !strings.Contains(string(out), "MFunc") || strings.Contains(string(out), "EXPECT()") {
		t.Fatalf("interface-level template: matryer was ignored; the file was rendered with the package-level template (testify)")
	}
}
