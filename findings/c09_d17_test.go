package internal

// Witness of known finding D17 (property C09: "a package that fails to load ... produce[s] a non-zero
// exit"). This test FAILS on the current tree: ParsePackages returns no error for a package path that
// does not exist, because a package without Go files is skipped before its load errors are looked at.
//   cd /repo && echo '{"Replace":{"/repo/internal/zz_replay_test.go":"/verif/findings/c09_d17_test.go"}}' > ov.json \
//     && GOPROXY=off go test -overlay ov.json -vet=off -timeout 120s -run 'TestWitnessD17' ./internal/

import (
	"context"
	"os"
	"path/filepath"
	"testing"
)

func TestWitnessD17_MissingPackageIsAnError(t *testing.T) {
	dir := t.TempDir()
	if err := os.WriteFile(filepath.Join(dir, "go.mod"), []byte("module example.com/m\n\ngo 1.23\n"), 0o644); err != nil {
		t.Fatal(err)
	}
	if err := os.MkdirAll(filepath.Join(dir, "a"), 0o755); err != nil {
		t.Fatal(err)
	}
	if err := os.WriteFile(filepath.Join(dir, "a", "a.go"), []byte("package a\n\ntype A interface{ M() }\n"), 0o644); err != nil {
		t.Fatal(err)
	}
	old, _ := os.Getwd()
	if err := os.Chdir(dir); err != nil {
		t.Fatal(err)
	}
	defer os.Chdir(old)
	t.Setenv("GOFLAGS", "-mod=mod")
	t.Setenv("GOWORK", "off")
	ifaces, err := NewParser(nil).ParsePackages(context.Background(), []string{"example.com/m/nosuchpkg"})
	if err == nil {
		t.Fatalf("ParsePackages(nosuchpkg) = %d interfaces, nil error; the run goes on and exits 0 without generating anything", len(ifaces))
	}
}
