package template_funcs

// Replay of the failing inputs behind obligations
//   template_funcs.FirstIsLower/index#1, /ensures#lower, /ensures#letter  (defect D1)
//   template_funcs.Exported/ensures#firstrune                            (defect D2)
// Run (never written into /repo):
//   cd /repo && echo '{"Replace":{"/repo/template_funcs/zz_replay_test.go":"/verif/findings/c16_d1_d2_test.go"}}' > /tmp/ov.json \
//     && GOPROXY=off go test -overlay /tmp/ov.json -vet=off -timeout 60s -run 'TestReplayC16' ./template_funcs/

import (
	"testing"
	"unicode"
	"unicode/utf8"
)

func TestReplayC16_FirstIsLowerEmpty(t *testing.T) {
	defer func() {
		if r := recover(); r != nil {
			t.Fatalf("FirstIsLower(\"\") panicked: %v (documented: false)", r)
		}
	}()
	if FirstIsLower("") {
		t.Fatalf("FirstIsLower(\"\") = true, want false")
	}
}

func TestReplayC16_FirstIsLowerNonASCII(t *testing.T) {
	for _, s := range []string{"éa", "ωmega", "читатель"} {
		r, _ := utf8.DecodeRuneInString(s)
		if unicode.IsLower(r) && !FirstIsLower(s) {
			t.Errorf("FirstIsLower(%q) = false although the first character %q is a lower-case letter", s, r)
		}
	}
	for _, s := range []string{"Éa", "Ωmega"} {
		if FirstIsLower(s) {
			t.Errorf("FirstIsLower(%q) = true although the first character is upper-case", s)
		}
	}
}

func TestReplayC16_ExportedNonASCII(t *testing.T) {
	for _, s := range []string{"éa", "ωmega"} {
		r, size := utf8.DecodeRuneInString(s)
		want := string(unicode.ToUpper(r)) + s[size:]
		if got := Exported(s); got != want {
			t.Errorf("Exported(%q) = %q, want %q", s, got, want)
		}
	}
}
