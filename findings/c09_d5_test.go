package config

// Replay for obligation config.(*Config).ShouldExcludeSubpkg/explicit-panic (defect D5, C09):
// an invalid exclude-subpkg-regex makes mockery terminate by an unrecovered panic.
//   cd /repo && echo '{"Replace":{"/repo/config/zz_replay_test.go":"/verif/findings/c09_d5_test.go"}}' > ov.json \
//     && GOPROXY=off go test -overlay ov.json -vet=off -timeout 120s -run 'TestReplayC09' ./config/

import (
	"context"
	"testing"
)

func TestReplayC09_InvalidExcludeSubpkgRegexIsAnError(t *testing.T) {
	c := Config{
		All: addr(false), BuildTags: addr(""), ConfigFile: addr(""), Dir: addr("."), ExcludeInterfaceRegex: addr(""),
		FileName: addr("mocks_test.go"), ForceFileWrite: addr(false), Formatter: addr("goimports"), IncludeInterfaceRegex: addr(""),
		LogLevel: addr("info"), StructName: addr("Mock"), PkgName: addr("p"), Recursive: addr(false),
		RequireTemplateSchemaExists: addr(true), Template: addr("testify"), TemplateSchema: addr(""), TemplateData: map[string]any{},
	}
	c.ExcludeSubpkgRegex = []string{"("}
	root := &RootConfig{
		Config: c,
		Packages: map[string]*PackageConfig{
			"github.com/vektra/mockery/v3/internal/fixtures/example_project/pkg_with_subpkgs": {Config: &Config{Recursive: addr(true)}},
		},
	}
	var err error
	func() {
		defer func() {
			if r := recover(); r != nil {
				t.Fatalf("Initialize panicked on an invalid exclude-subpkg-regex: %v", r)
			}
		}()
		err = root.Initialize(context.Background())
	}()
	if err == nil {
		t.Fatalf("an invalid exclude-subpkg-regex must be reported as an error")
	}
}
