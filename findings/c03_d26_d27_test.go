package cmd

// Replay of findings D26 and D27 (property C03, also C01), testify template:
//  D26  unroll-variadic: true + a variadic method WITHOUT results: the preamble and the Called(...)
//       statement were rendered on one line ("_ca = append(_ca, _va...) _mock.Called(_ca...)"),
//       goimports rejected the file and mockery failed for the whole output file.
//  D27  a variadic method with TWO OR MORE results: the whole-function provider was asserted to the
//       non-variadic type func(string, []any) (int, error) while RunAndReturn stores a
//       func(string, ...any) (int, error): with unroll-variadic: true the file did not compile
//       ("cannot use ... in call to non-variadic returnFunc"), with unroll-variadic: false the
//       RunAndReturn function was never recognised and the call panicked in a type assertion.
//   cd /repo && echo '{"Replace":{"/repo/internal/cmd/zz_replay_test.go":"/verif/findings/c03_d26_d27_test.go"}}' > ov.json \
//     && GOPROXY=off go test -overlay ov.json -vet=off -timeout 300s -run 'TestReplayD26D27' ./internal/cmd/

import (
	"context"
	"os"
	"os/exec"
	"path/filepath"
	"strings"
	"testing"

	"github.com/spf13/pflag"
)

func replayD26D27(t *testing.T, unroll string) {
	repoRoot, err := filepath.Abs(filepath.Join("..", ".."))
	if err != nil {
		t.Fatal(err)
	}
	root := t.TempDir()
	gomod, _ := os.ReadFile(filepath.Join(repoRoot, "go.mod"))
	ver := "v1.10.0"
	for _, ln := range strings.Split(string(gomod), "\n") {
		f := strings.Fields(ln)
		if len(f) >= 2 && f[0] == "github.com/stretchr/testify" {
			ver = f[1]
		}
	}
	gosum, _ := os.ReadFile(filepath.Join(repoRoot, "go.sum"))
	files := map[string]string{
		"go.mod": "module example.com/d26\n\ngo 1.23\n\nrequire github.com/stretchr/testify " + ver + "\n",
		"go.sum": string(gosum),
		"a/a.go": "package a\n\ntype Logger interface {\n\tDebugf(format string, args ...any)\n\tOnly(xs ...int)\n\tPrintf(format string, args ...any) (int, error)\n}\n",
		"a/a_test.go": `package a

import "testing"

func TestRunAndReturnVariadicTwoResults(t *testing.T) {
	f := func(format string, args ...any) (int, error) { return len(args), nil }
	m := NewMockLogger(t)
	if ` + unroll + ` {
		m.EXPECT().Printf("x", 1, 2).RunAndReturn(f)
	} else {
		m.EXPECT().Printf("x", []any{1, 2}).RunAndReturn(f)
	}
	n, err := m.Printf("x", 1, 2)
	if n != 2 || err != nil {
		t.Fatalf("got (%d, %v), want (2, nil)", n, err)
	}
}
`,
		".mockery.yml": "formatter: goimports\nforce-file-write: true\ntemplate: testify\ntemplate-data:\n  unroll-variadic: " + unroll + "\npackages:\n  example.com/d26/a:\n    config:\n      all: true\n",
	}
	for rel, content := range files {
		p := filepath.Join(root, rel)
		if err := os.MkdirAll(filepath.Dir(p), 0o755); err != nil {
			t.Fatal(err)
		}
		if err := os.WriteFile(p, []byte(content), 0o644); err != nil {
			t.Fatal(err)
		}
	}
	oldwd, _ := os.Getwd()
	if err := os.Chdir(root); err != nil {
		t.Fatal(err)
	}
	defer os.Chdir(oldwd)
	t.Setenv("GOWORK", "off")
	t.Setenv("GOFLAGS", "-mod=mod")
	t.Setenv("GOPROXY", "off")
	flags := pflag.NewFlagSet("d26", pflag.ContinueOnError)
	flags.String("config", "", "")
	if err := flags.Parse([]string{"--config", filepath.Join(root, ".mockery.yml")}); err != nil {
		t.Fatal(err)
	}
	app, err := GetRootApp(context.Background(), flags)
	if err != nil {
		t.Fatalf("GetRootApp: %v", err)
	}
	if err := app.Run(); err != nil {
		t.Fatalf("D26: mockery cannot generate a mock for a variadic method without results (unroll-variadic: %s): %v", unroll, err)
	}
	cmd := exec.Command("go", "test", "-count=1", "./a/")
	cmd.Dir = root
	if out, err := cmd.CombinedOutput(); err != nil {
		t.Fatalf("D27: the generated mock of a variadic method with two results does not compile or does not honour RunAndReturn (unroll-variadic: %s): %v\n%s", unroll, err, out)
	}
}

func TestReplayD26D27Unrolled(t *testing.T)    { replayD26D27(t, "true") }
func TestReplayD26D27NotUnrolled(t *testing.T) { replayD26D27(t, "false") }
