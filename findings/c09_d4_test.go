package internal

// Replay for obligations internal.findPkgPath/index (defect D4, C09: "never a crash on any
// syntactically valid go.mod") and internal.findPkgPath/ensures#modpath (C01: the destination
// import path is the module path of go.mod joined with the directory).
//   cd /repo && echo '{"Replace":{"/repo/internal/zz_replay_test.go":"/verif/findings/c09_d4_test.go"}}' > ov.json \
//     && GOPROXY=off go test -overlay ov.json -vet=off -timeout 120s -run 'TestReplayC09' ./internal/

import (
	"os"
	"path/filepath"
	"testing"

	"github.com/chigopher/pathlib"
)

func pkgPathWithGoMod(t *testing.T, gomod string) (path string, err error, panicked any) {
	t.Helper()
	dir := t.TempDir()
	if e := os.WriteFile(filepath.Join(dir, "go.mod"), []byte(gomod), 0o644); e != nil {
		t.Fatal(e)
	}
	defer func() { panicked = recover() }()
	path, err = findPkgPath(pathlib.NewPath(filepath.Join(dir, "sub", "pkg")))
	return path, err, nil
}

func TestReplayC09_GoModWithTabDoesNotPanic(t *testing.T) {
	p, err, panicked := pkgPathWithGoMod(t, "module\texample.com/m\n\ngo 1.23\n")
	if panicked != nil {
		t.Fatalf("findPkgPath panicked on a valid go.mod (tab after 'module'): %v", panicked)
	}
	if err != nil || p != "example.com/m/sub/pkg" {
		t.Fatalf("findPkgPath = %q, %v; want example.com/m/sub/pkg", p, err)
	}
}

func TestReplayC09_GoModWithCommentQuotesOrBlock(t *testing.T) {
	for _, gomod := range []string{
		"module example.com/m // the module\n\ngo 1.23\n",
		"module \"example.com/m\"\n\ngo 1.23\n",
		"module (\n\texample.com/m\n)\n\ngo 1.23\n",
	} {
		p, err, panicked := pkgPathWithGoMod(t, gomod)
		if panicked != nil {
			t.Errorf("findPkgPath panicked on %q: %v", gomod, panicked)
			continue
		}
		if err != nil || p != "example.com/m/sub/pkg" {
			t.Errorf("go.mod %q: findPkgPath = %q, %v; want example.com/m/sub/pkg", gomod, p, err)
		}
	}
}
