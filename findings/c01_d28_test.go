package cmd

// Replay of finding D28 (property C01), matryer template: the generated methods used the fixed receiver
// name "mock" and the fixed local "callInfo". A method parameter with one of those names made the
// generated file fail to compile ("mock redeclared in this block" / "no new variables on left side").
//   cd /repo && echo '{"Replace":{"/repo/internal/cmd/zz_replay_test.go":"/verif/findings/c01_d28_test.go"}}' > ov.json \
//     && GOPROXY=off go test -overlay ov.json -vet=off -timeout 300s -run 'TestReplayD28' ./internal/cmd/

import (
	"context"
	"os"
	"os/exec"
	"path/filepath"
	"strings"
	"testing"

	"github.com/spf13/pflag"
)

func TestReplayD28MatryerParameterNames(t *testing.T) {
	repoRoot, err := filepath.Abs(filepath.Join("..", ".."))
	if err != nil {
		t.Fatal(err)
	}
	root := t.TempDir()
	gomod, _ := os.ReadFile(filepath.Join(repoRoot, "go.mod"))
	ver := "v1.10.0"
	for _, ln := range strings.Split(string(gomod), "\n") {
		f := strings.Fields(ln)
		if len(f) >= 2 && f[0] == "github.com/stretchr/testify" {
			ver = f[1]
		}
	}
	gosum, _ := os.ReadFile(filepath.Join(repoRoot, "go.sum"))
	files := map[string]string{
		"go.mod": "module example.com/d12\n\ngo 1.23\n\nrequire github.com/stretchr/testify " + ver + "\n",
		"go.sum": string(gosum),
		"a/a.go": "package a\n\ntype Checker interface {\n\tRegister(mock int, callInfo string) int\n}\n",
		"a/a_test.go": `package a

import "testing"

func TestForwards(t *testing.T) {
	m := &MoqChecker{RegisterFunc: func(mock int, callInfo string) int { return mock + len(callInfo) }}
	if got := m.Register(2, "abc"); got != 5 {
		t.Fatalf("Register(2, \"abc\") = %d, want 5", got)
	}
	if c := m.RegisterCalls(); len(c) != 1 || c[0].Mock != 2 || c[0].CallInfo != "abc" {
		t.Fatalf("calls = %+v", c)
	}
}
`,
		".mockery.yml": "formatter: goimports\nforce-file-write: true\ntemplate: matryer\nstructname: \"Moq{{.InterfaceName}}\"\npackages:\n  example.com/d12/a:\n    config:\n      all: true\n",
	}
	for rel, content := range files {
		p := filepath.Join(root, rel)
		if err := os.MkdirAll(filepath.Dir(p), 0o755); err != nil {
			t.Fatal(err)
		}
		if err := os.WriteFile(p, []byte(content), 0o644); err != nil {
			t.Fatal(err)
		}
	}
	oldwd, _ := os.Getwd()
	if err := os.Chdir(root); err != nil {
		t.Fatal(err)
	}
	defer os.Chdir(oldwd)
	t.Setenv("GOWORK", "off")
	t.Setenv("GOFLAGS", "-mod=mod")
	t.Setenv("GOPROXY", "off")
	flags := pflag.NewFlagSet("d12", pflag.ContinueOnError)
	flags.String("config", "", "")
	if err := flags.Parse([]string{"--config", filepath.Join(root, ".mockery.yml")}); err != nil {
		t.Fatal(err)
	}
	app, err := GetRootApp(context.Background(), flags)
	if err != nil {
		t.Fatalf("GetRootApp: %v", err)
	}
	if err := app.Run(); err != nil {
		t.Fatalf("mockery: %v", err)
	}
	cmd := exec.Command("go", "test", "-count=1", "./a/")
	cmd.Dir = root
	if out, err := cmd.CombinedOutput(); err != nil {
		t.Fatalf("D28: the matryer mock of a method with parameters named mock / callInfo does not compile: %v\n%s", err, out)
	}
}
