package config

// Replay of finding D20 (property C09: "never terminates by an unrecovered panic on any input").
// An empty (null) entry in an interface's `configs:` list made InterfaceConfig.Initialize hand a nil
// *Config to mergeConfigs, which panicked in package reflect.
//   cd /repo && echo '{"Replace":{"/repo/config/zz_replay_test.go":"/verif/findings/c09_d20_test.go"}}' > ov.json \
//     && GOPROXY=off go test -overlay ov.json -vet=off -run 'TestReplayD20' ./config/

import (
	"context"
	"os"
	"path/filepath"
	"testing"

	"github.com/spf13/pflag"
)

func TestReplayD20NullConfigsEntry(t *testing.T) {
	dir := t.TempDir()
	cfg := filepath.Join(dir, ".mockery.yml")
	yml := "structname: Top\npackages:\n  example.com/x:\n    interfaces:\n      A:\n        configs:\n          - \n          - structname: B\n"
	if err := os.WriteFile(cfg, []byte(yml), 0o644); err != nil {
		t.Fatal(err)
	}
	t.Setenv("MOCKERY_CONFIG", cfg)
	defer func() {
		if r := recover(); r != nil {
			t.Fatalf("NewRootConfig panicked on a null configs entry: %v", r)
		}
	}()
	flags := pflag.NewFlagSet("test", pflag.ContinueOnError)
	flags.String("config", "", "")
	rc, _, err := NewRootConfig(context.Background(), flags)
	if err != nil {
		t.Fatalf("unexpected error: %v", err)
	}
	cs := rc.Packages["example.com/x"].Interfaces["A"].Configs
	if len(cs) != 2 || cs[0] == nil || cs[1] == nil {
		t.Fatalf("configs = %v, want two non-nil entries", cs)
	}
	if *cs[0].StructName != "Top" || *cs[1].StructName != "B" {
		t.Fatalf("entries do not inherit as documented: %q, %q", *cs[0].StructName, *cs[1].StructName)
	}
}
