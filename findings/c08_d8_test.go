package config

// Replay for obligation config.mergeConfigs/ensures#zeroable.ReplaceType (defect D8): a
// replace-type setting is not inherited from the less specific level (C08, C13 "at whichever
// configuration level it is written").
//   cd /repo && echo '{"Replace":{"/repo/config/zz_replay_test.go":"/verif/findings/c08_d8_test.go"}}' > ov.json \
//     && GOPROXY=off go test -overlay ov.json -vet=off -timeout 120s -run 'TestReplayC08' ./config/

import (
	"context"
	"testing"
)

func wfConfigD8() Config {
	return Config{
		All: addr(false), BuildTags: addr(""), ConfigFile: addr(""), Dir: addr("."), ExcludeInterfaceRegex: addr(""),
		FileName: addr("mocks_test.go"), ForceFileWrite: addr(false), Formatter: addr("goimports"), IncludeInterfaceRegex: addr(""),
		LogLevel: addr("info"), StructName: addr("Mock"), PkgName: addr("p"), Recursive: addr(false),
		RequireTemplateSchemaExists: addr(true), Template: addr("testify"), TemplateSchema: addr(""), TemplateData: map[string]any{}, Anchors: map[string]any{},
	}
}

func TestReplayC08_ReplaceTypeIsInherited(t *testing.T) {
	src := wfConfigD8()
	rt := &ReplaceType{PkgPath: "example.com/repl", TypeName: "T"}
	src.ReplaceType = map[string]map[string]*ReplaceType{"example.com/orig": {"T": rt}}
	dest := &Config{}
	mergeConfigs(context.Background(), src, dest)
	if got := dest.GetReplacement("example.com/orig", "T"); got != rt {
		t.Fatalf("replace-type set at the less specific level is not inherited: GetReplacement = %v, want %v", got, rt)
	}
}

func TestReplayC08_ReplaceTypeMoreSpecificWins(t *testing.T) {
	src := wfConfigD8()
	src.ReplaceType = map[string]map[string]*ReplaceType{"example.com/orig": {"T": {PkgPath: "example.com/a", TypeName: "A"}}}
	own := &ReplaceType{PkgPath: "example.com/b", TypeName: "B"}
	dest := &Config{ReplaceType: map[string]map[string]*ReplaceType{"example.com/orig": {"T": own}}}
	mergeConfigs(context.Background(), src, dest)
	if got := dest.GetReplacement("example.com/orig", "T"); got != own {
		t.Fatalf("the more specific replace-type must win: got %v", got)
	}
}
