package config

// Replay of finding D10 (property C07: sub-packages "are treated as if configured with the settings of
// their nearest configured recursive ancestor"; also C06: the outcome depended on map iteration order).
// With two nested recursive packages a and a/b, the sub-package a/b/c inherited a's settings whenever
// a happened to be expanded before a/b (recursive packages were expanded in map order, first writer wins).
//   cd /repo && echo '{"Replace":{"/repo/config/zz_replay_test.go":"/verif/findings/c07_d10_test.go"}}' > ov.json \
//     && GOPROXY=off go test -overlay ov.json -vet=off -timeout 300s -run 'TestReplayD10' ./config/

import (
	"context"
	"os"
	"path/filepath"
	"testing"

	"github.com/spf13/pflag"
)

func TestReplayD10NearestRecursiveAncestor(t *testing.T) {
	root := t.TempDir()
	files := map[string]string{
		"go.mod":       "module example.com/d10\n\ngo 1.21\n",
		"a/a.go":       "package a\n\ntype A interface{ M() }\n",
		"a/b/b.go":     "package b\n\ntype B interface{ M() }\n",
		"a/b/c/c.go":   "package c\n\ntype C interface{ M() }\n",
		".mockery.yml": "all: true\npackages:\n  example.com/d10/a:\n    config:\n      recursive: true\n      filename: from_a.go\n  example.com/d10/a/b:\n    config:\n      recursive: true\n      filename: from_b.go\n",
	}
	for rel, content := range files {
		p := filepath.Join(root, rel)
		if err := os.MkdirAll(filepath.Dir(p), 0o755); err != nil {
			t.Fatal(err)
		}
		if err := os.WriteFile(p, []byte(content), 0o644); err != nil {
			t.Fatal(err)
		}
	}
	oldwd, _ := os.Getwd()
	if err := os.Chdir(root); err != nil {
		t.Fatal(err)
	}
	defer os.Chdir(oldwd)
	t.Setenv("GOWORK", "off")
	t.Setenv("GOFLAGS", "-mod=mod")
	t.Setenv("MOCKERY_CONFIG", filepath.Join(root, ".mockery.yml"))
	seen := map[string]int{}
	for run := 0; run < 24; run++ {
		flags := pflag.NewFlagSet("d10", pflag.ContinueOnError)
		flags.String("config", "", "")
		rc, _, err := NewRootConfig(context.Background(), flags)
		if err != nil {
			t.Fatal(err)
		}
		c := rc.Packages["example.com/d10/a/b/c"]
		if c == nil {
			t.Fatal("sub-package a/b/c was not added")
		}
		seen[*c.Config.FileName]++
	}
	if len(seen) != 1 || seen["from_b.go"] == 0 {
		t.Fatalf("a/b/c must inherit from its nearest recursive ancestor a/b on every run; filename over 24 runs: %v", seen)
	}
}
