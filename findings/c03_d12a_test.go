package cmd

// Witness of known finding D12a (property C03), testify template. This test FAILS on the current tree:
// the typed Run wrapper converts a fixed parameter of interface type with args[i].(T) and no nil guard,
// so a call that passes nil for it panics when a Run callback is configured.
//   cd /repo && echo '{"Replace":{"/repo/internal/cmd/zz_replay_test.go":"/verif/findings/c03_d12a_test.go"}}' > ov.json \
//     && GOPROXY=off go test -overlay ov.json -vet=off -timeout 300s -run 'TestWitnessD12a' ./internal/cmd/

import (
	"context"
	"os"
	"os/exec"
	"path/filepath"
	"strings"
	"testing"

	"github.com/spf13/pflag"
)

func TestWitnessD12aNilInterfaceArgument(t *testing.T) {
	repoRoot, err := filepath.Abs(filepath.Join("..", ".."))
	if err != nil {
		t.Fatal(err)
	}
	root := t.TempDir()
	gomod, _ := os.ReadFile(filepath.Join(repoRoot, "go.mod"))
	ver := "v1.10.0"
	for _, ln := range strings.Split(string(gomod), "\n") {
		f := strings.Fields(ln)
		if len(f) >= 2 && f[0] == "github.com/stretchr/testify" {
			ver = f[1]
		}
	}
	gosum, _ := os.ReadFile(filepath.Join(repoRoot, "go.sum"))
	files := map[string]string{
		"go.mod": "module example.com/d12\n\ngo 1.23\n\nrequire github.com/stretchr/testify " + ver + "\n",
		"go.sum": string(gosum),
		"a/a.go": "package a\n\nimport \"io\"\n\ntype Checker interface {\n\tUse(r io.Reader) int\n}\n",
		"a/a_test.go": `package a

import (
	"io"
	"testing"
)

func TestRunCallbackGetsNil(t *testing.T) {
	m := NewMockChecker(t)
	called := false
	m.EXPECT().Use(nil).Run(func(r io.Reader) { called = r == nil }).Return(1)
	if got := m.Use(nil); got != 1 || !called {
		t.Fatalf("Use(nil) = %d, callback saw nil: %v", got, called)
	}
}
`,
		".mockery.yml": "formatter: goimports\nforce-file-write: true\ntemplate: testify\npackages:\n  example.com/d12/a:\n    config:\n      all: true\n",
	}
	for rel, content := range files {
		p := filepath.Join(root, rel)
		if err := os.MkdirAll(filepath.Dir(p), 0o755); err != nil {
			t.Fatal(err)
		}
		if err := os.WriteFile(p, []byte(content), 0o644); err != nil {
			t.Fatal(err)
		}
	}
	oldwd, _ := os.Getwd()
	if err := os.Chdir(root); err != nil {
		t.Fatal(err)
	}
	defer os.Chdir(oldwd)
	t.Setenv("GOWORK", "off")
	t.Setenv("GOFLAGS", "-mod=mod")
	t.Setenv("GOPROXY", "off")
	flags := pflag.NewFlagSet("d12", pflag.ContinueOnError)
	flags.String("config", "", "")
	if err := flags.Parse([]string{"--config", filepath.Join(root, ".mockery.yml")}); err != nil {
		t.Fatal(err)
	}
	app, err := GetRootApp(context.Background(), flags)
	if err != nil {
		t.Fatalf("GetRootApp: %v", err)
	}
	if err := app.Run(); err != nil {
		t.Fatalf("mockery: %v", err)
	}
	cmd := exec.Command("go", "test", "-count=1", "./a/")
	cmd.Dir = root
	if out, err := cmd.CombinedOutput(); err != nil {
		t.Fatalf("D12a: passing nil for an interface-typed parameter panics in the typed Run wrapper: %v\n%s", err, out)
	}
}
