package internal

// Replay of the failing input behind obligation internal.(*NodeVisitor).Visit/ensures#nolocal
// (defect D3: function-local type specs are visited; ParsePackages then dereferences the nil
// result of scope.Lookup, or mocks the package-level twin twice).
//   cd /repo && echo '{"Replace":{"/repo/internal/zz_replay_test.go":"/verif/findings/c07_d3_test.go"}}' > ov.json \
//     && GOPROXY=off go test -overlay ov.json -vet=off -timeout 120s -run 'TestReplayC07' ./internal/

import (
	"context"
	"os"
	"path/filepath"
	"testing"
)

func writeModule(t *testing.T, src string) string {
	t.Helper()
	dir := t.TempDir()
	if err := os.WriteFile(filepath.Join(dir, "go.mod"), []byte("module example.com/m\n\ngo 1.23\n"), 0o644); err != nil {
		t.Fatal(err)
	}
	if err := os.MkdirAll(filepath.Join(dir, "a"), 0o755); err != nil {
		t.Fatal(err)
	}
	if err := os.WriteFile(filepath.Join(dir, "a", "a.go"), []byte(src), 0o644); err != nil {
		t.Fatal(err)
	}
	return dir
}

func parseIn(t *testing.T, dir string) (names []string, panicked any) {
	t.Helper()
	old, _ := os.Getwd()
	if err := os.Chdir(dir); err != nil {
		t.Fatal(err)
	}
	defer os.Chdir(old)
	t.Setenv("GOFLAGS", "-mod=mod")
	t.Setenv("GOWORK", "off")
	defer func() { panicked = recover() }()
	ifaces, err := NewParser(nil).ParsePackages(context.Background(), []string{"example.com/m/a"})
	if err != nil {
		t.Fatalf("ParsePackages: %v", err)
	}
	for _, i := range ifaces {
		names = append(names, i.Name)
	}
	return names, nil
}

func TestReplayC07_LocalTypeIsNotACandidate(t *testing.T) {
	dir := writeModule(t, "package a\n\ntype A interface{ M() }\n\nfunc F() {\n\ttype L interface{ N() }\n\tvar _ L\n}\n")
	names, p := parseIn(t, dir)
	if p != nil {
		t.Fatalf("ParsePackages panicked on a function-local interface type: %v", p)
	}
	if len(names) != 1 || names[0] != "A" {
		t.Fatalf("candidates = %v, want [A]", names)
	}
}

func TestReplayC07_ShadowingLocalTypeDoesNotDuplicate(t *testing.T) {
	dir := writeModule(t, "package a\n\ntype A interface{ M() }\n\nfunc F() {\n\ttype A interface{ N() }\n\tvar _ A\n}\n")
	names, p := parseIn(t, dir)
	if p != nil {
		t.Fatalf("ParsePackages panicked: %v", p)
	}
	if len(names) != 1 {
		t.Fatalf("candidates = %v, want exactly one A (an interface must not be mocked twice)", names)
	}
}
