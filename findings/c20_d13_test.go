package cmd

// Replay of finding D13 (property C20): "dry-run is the default". NewTagCmd defines --dry-run with
// default true but bound it on viper's global instance, while the Tagger is unmarshalled from the
// instance v: with no flag given DryRun came out false and tags were really created.
// Run with:  go test -overlay <ov.json> -vet=off -run TestReplayD13 ./cmd   (in /repo/tools)

import (
	"os"
	"path/filepath"
	"testing"

	"github.com/spf13/viper"
)

func TestReplayD13DryRunDefault(t *testing.T) {
	dir := t.TempDir()
	if err := os.WriteFile(filepath.Join(dir, "mockery-tools.env"), []byte("VERSION=v9.9.9\n"), 0o644); err != nil {
		t.Fatal(err)
	}
	v := viper.New()
	v.SetConfigType("env")
	v.SetConfigName("mockery-tools")
	v.AddConfigPath(dir)
	cmd, err := NewTagCmd(v)
	if err != nil {
		t.Fatal(err)
	}
	if err := cmd.ParseFlags(nil); err != nil {
		t.Fatal(err)
	}
	tagger, err := NewTagger(v)
	if err != nil {
		t.Fatal(err)
	}
	if !tagger.DryRun {
		t.Fatalf("no --dry-run flag given: DryRun = false, the tool would create tags (default must be dry-run)")
	}
	// an explicit --dry-run=false must still reach the Tagger
	v2 := viper.New()
	v2.SetConfigType("env")
	v2.SetConfigName("mockery-tools")
	v2.AddConfigPath(dir)
	cmd2, err := NewTagCmd(v2)
	if err != nil {
		t.Fatal(err)
	}
	if err := cmd2.ParseFlags([]string{"--dry-run=false"}); err != nil {
		t.Fatal(err)
	}
	tagger2, err := NewTagger(v2)
	if err != nil {
		t.Fatal(err)
	}
	if tagger2.DryRun {
		t.Fatalf("--dry-run=false given: DryRun = true")
	}
}
