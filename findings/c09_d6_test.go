package config

// Replay of finding D6 (property C09: "never terminates by an unrecovered panic on any input").
// A MOCKERY_* environment variable whose value is "true"/"false" in mixed case (e.g. tRue) passed the
// case-insensitive test but not strconv.ParseBool, and the loader panicked.

import (
	"context"
	"os"
	"path/filepath"
	"testing"

	"github.com/spf13/pflag"
)

func TestReplayD6MixedCaseBoolEnv(t *testing.T) {
	dir := t.TempDir()
	cfg := filepath.Join(dir, ".mockery.yml")
	if err := os.WriteFile(cfg, []byte("packages:\n  example.com/x:\n"), 0o644); err != nil {
		t.Fatal(err)
	}
	t.Setenv("MOCKERY_CONFIG", cfg)
	t.Setenv("MOCKERY_ALL", "tRue")
	defer func() {
		if r := recover(); r != nil {
			t.Fatalf("NewRootConfig panicked on MOCKERY_ALL=tRue: %v", r)
		}
	}()
	flags := pflag.NewFlagSet("test", pflag.ContinueOnError)
	flags.String("config", "", "")
	rc, _, err := NewRootConfig(context.Background(), flags)
	if err != nil {
		t.Fatalf("unexpected error: %v", err)
	}
	if rc.All == nil || !*rc.All {
		t.Fatalf("MOCKERY_ALL=tRue: all = %v, want true", rc.All)
	}
}
