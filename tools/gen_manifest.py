#!/usr/bin/env python3
"""Regenerates /verif/MANIFEST.json from the table below (kept valid at all times)."""
import json, subprocess

ALL = ["C%02d" % i for i in range(1, 21)]

# property -> (category, text, design_ref, level_note, technique)
CHECKS = {
 "C15": ("proof",
   "All obligations generated from the real bodies of the name and import allocators (MethodScope.{NameExists,AddName,SuggestName,AllocateName}, Registry.addImport, NewRegistry, Package.{Qualifier,Path,ImportStatement}) are discharged by SMT for every input and every call history: the registry's paths<->qualifiers bijection is a representation invariant re-established by addImport, and the name set semantics give 'allocated names never collide', 'suggestion has no effect' (frame), 'existing stays existing'.",
   "DESIGN.md 6 C15",
   "Trusted: the VC generator, go/types, the solvers; fmt.Sprintf pure and non-empty for %d formats; TypesPackage implementations pure; termination of the suffix searches argued, not proved.",
   "contract-based deductive verification: weakest-precondition style VC generation over go/ast+go/types of the real functions against //@ contracts, discharged by z3/cvc5"),
 "C16": ("proof",
   "Every entry of template_funcs.FuncMap is decided: lambdas are proved equal to the documented standard-library namesake with the subject string last (stdlib uninterpreted, so the obligation is exactly 'right function, right argument order'); direct bindings are proved to be the documented object by go/types identity; Exported, FirstIsLower, ReadFile and the arithmetic functions at int are proved against functional specifications (first rune, initialism search with a loop invariant, left fold of the 64-bit wrapped operator) for all inputs. Index and slice-bounds safety obligations give totality.",
   "DESIGN.md 6 C16",
   "Trusted: VC generator, go/types, solvers; stdlib/xstrings functions uninterpreted; two Unicode/UTF-8 axioms listed in the contract file; panics from division by zero and Min of nothing are template errors by text/template's recovery.",
   "contract-based deductive verification: VC generation over the real function bodies and FuncMap literals against //@ contracts, discharged by z3/cvc5; object identity of direct bindings by go/types"),
 "C04": ("translation_validation",
   "Instance-wise (translation validation of the generator's output by deductive proof): on every run mockery is built from the working tree and run over the corpus /verif/corpus (8 interfaces, 20 methods) with the matryer template in the variants {with-resets} and {stub-impl}; for every generated method a contract instantiated from the SOURCE interface's signature and the property text is proved on the generated code for all argument values and all prior call histories: exactly one record is appended holding the arguments in parameter order, earlier records and all other records and Func fields are untouched at the moment of forwarding, MFunc is called exactly once with exactly the arguments and its results are returned unchanged, a nil MFunc panics (stub-impl: the call is recorded, nothing is called, zero values are returned), MCalls returns the records, ResetMCalls/ResetCalls empty exactly the named records; struct layout and type parameters are decided by go/types. Bounded over programs: the statement is proved per corpus instance, the corpus is a sample of interfaces.",
   "DESIGN.md 5, 6 C04", "Trusted: VC generator, go/types, solvers; mockery's run producing the instances; value semantics of slices (a snapshot returned by MCalls sharing its backing array with later records is not modelled); user callbacks may do anything.", "contract-based deductive verification of the generator's output: contracts instantiated mechanically per generated method from the source signature, VC generation over the generated Go code, z3/cvc5 (instance-wise; corpus-bounded over interfaces)"),
 "C05": ("translation_validation",
   "Instance-wise, matryer-style mocks of the corpus: every syntactic read of a record slice is proved to happen while the method's RWMutex is read- or write-locked and every write while it is write-locked (guarded-by obligations), Lock/Unlock/RLock/RUnlock follow the protocol on every path, and no lock is held when the user's function is called or when a method returns. With the lock-discipline meta-theorem (stated, trusted) this gives: no data race on the records, appends are atomic, no call lost or recorded twice, each record built from the arguments of its own call - for all schedules. Bounded over programs by the corpus. Not covered: testify-style mocks (that the generated code adds no shared state of its own), and snapshots aliasing later records after a reset.",
   "DESIGN.md 5.3, 6 C05", "Trusted: lock-discipline meta-theorem; sync.RWMutex semantics; VC generator, go/types, solvers; value semantics of slices.", "contract-based deductive verification of the generator's output: guarded-by lock-discipline obligations and lock-protocol safety obligations generated on the generated Go code, z3/cvc5 (instance-wise; corpus-bounded over interfaces)"),
 "C07": ("proof",
   "The selection predicate PackageConfig.ShouldGenerateInterface is proved to be the property's iff verbatim (all/listed/include/exclude, regex errors) for all inputs; discovery (NodeVisitor.Visit records exactly interface-like type specs and never enters function bodies; ParsePackages turns exactly package-level named interface types into candidates, checks Lookup results, fails on load errors), the sub-package filter (Go files, ShouldExcludeSubpkg == exists matching regex, error instead of panic), one mock per configs entry (InterfaceConfig.Initialize) and the recursive expansion loop of RootConfig.Initialize (every non-excluded sub-package is added, configured from the recursive package) are proved with loop invariants. Partial: the AST walk (ast.Walk) and the per-interface expansion in RootApp.Run are assumed/covered elsewhere.",
   "DESIGN.md 6 C07",
   "Trusted: VC generator, go/types, solvers; regexp.MatchString pure with error depending on the pattern only; go/packages result shape (axiom loader_syntax); go/types accessors pure; ast.Walk follows the Visitor protocol.",
   "contract-based deductive verification: VC generation over the real function bodies against //@ contracts (decision-table postcondition, loop invariants, call-site obligations), z3/cvc5"),
 "C08": ("proof",
   "The hierarchical merge is proved field by field for the actual fields of config.Config: mergeConfigs is verified with its reflection resolved statically (the loop over the struct's fields is unrolled from go/types; each pointer parameter: the more specific level wins, otherwise a fresh copy of the less specific value, never aliased; slices and typed maps such as replace-type: inherited when unset; map[string]any: merged key by key with the more specific key winning), mergeStringMaps (recursive, loop invariants over a ghost visited set, frame: nothing at or above the destination's level other than the destination changes) and the three Initialize functions (call-site obligations: top level -> package -> interface -> configs entry; loop invariants: every level is reached and ends with every parameter set). Partial: provider load order in NewRootConfig and the read sites in RootApp.Run are not part of this check.",
   "DESIGN.md 6 C08",
   "Trusted: VC generator, go/types, solvers; the semantics of the twelve reflect operations used; YAML/koanf decoding yields trees with distinct top-level maps (ghost depth labelling is a precondition).",
   "contract-based deductive verification with statically resolved reflection: VC generation over the real bodies of mergeConfigs/mergeStringMaps/Initialize against per-field contract schemas generated from go/types, z3/cvc5"),
 "C19": ("proof",
   "migrateConfig is proved in one symbolic VC for all 2^45 set/unset combinations of the v2 keys: every v2 setting with a v3 counterpart (all, _anchors, config, dir, exclude, exclude-regex, include-regex, log-level, mockname, outpkg, recursive, boilerplate-file, mock-build-tags, unroll-variadic, with-expecter) appears with the same value under its v3 name or template-data key; the template-data map gains no other key; every other v3 parameter is unchanged (field list complement from go/types); the v2 struct is untouched; no nil dereference. run's call-site obligations: input opened O_RDONLY, output opened once with O_CREATE|O_RDWR|O_TRUNC on the requested path, the encoded value has exactly the v2 package names, the top-level settings are the migrated ones and the only invented value is template=testify. checkDeprecatedTemplateVariables is verified with its reflection resolved statically over V2Config's fields. Partial: YAML decode/encode and loader acceptance are assumed; interface-level key preservation is covered through migrateConfig's per-level contract only.",
   "DESIGN.md 6 C19",
   "Trusted: VC generator, go/types, solvers; yaml.v3; pathlib.OpenFile = POSIX open; reflect operations on static descriptors.",
   "contract-based deductive verification: field-wise postcondition and frame (sameExcept over go/types field list) on the real migrateConfig, call-site obligations and map-range loop invariants on run, z3/cvc5"),
 "C18": ("proof",
   "Call-site obligations on the real initRun, discharged for all inputs: the config file is opened exactly once, exclusively (O_RDWR|O_CREATE|O_EXCL, no O_TRUNC) at the path from --config or .mockery.yml, before anything is encoded; the single Encode happens only after that open succeeded (so, by POSIX O_EXCL, no file existed) and writes the RootConfig unmarshalled from config.NewDefaultKoanf plus packages = {arg: {config: {all: true, every other parameter unset}, interfaces: {}}}; no other file-system mutation is reachable (frame over the FS-mutator table); a failed open ends in exit(1) without a write. NewDefaultKoanf is proved to load the struct of defaults and no environment/file/flag provider. Partial: YAML quoting round-trip, loader acceptance and the subsequent run are library behaviour.",
   "DESIGN.md 6 C18",
   "Trusted: VC generator, go/types, solvers; POSIX O_EXCL contract of pathlib.OpenFile; yaml.v3 Encoder; koanf Load/Unmarshal; cobra.ExactArgs(1).",
   "contract-based deductive verification: call-site (site) obligations with ghost call counters and an FS-effect frame on the real initRun, z3/cvc5"),
 "C10": ("proof",
   "Proved on the real RootApp.Run, TemplateGenerator.Generate, findPkgPath, Config.FilePath and InterfaceCollection.Append, for all inputs and all iteration counts: the file-system mutations reachable are MkdirAll on the parent of an output path (and the output directory in findPkgPath) and WriteFile on the output path, nothing else (effect frame over a table of FS mutators); WriteFile gets exactly the bytes Generate returned, only after Generate, MkdirAll and Exists returned nil, and only if the path does not exist or the owning package's effective force-file-write is set; Generate returns no bytes when any stage fails and formats exactly once after one successful execution; the output path is Clean(dir/filename) of a selected mock's configuration. Partial: atomicity of the WriteFile system call sequence (partial file on crash/short write) is assumed, not proved; the FS-mutator table is trusted.",
   "DESIGN.md 6 C10", "Trusted: VC generator, go/types, solvers; FS-mutator table; pathlib WriteFile/Exists/MkdirAll semantics; no concurrent writers.", "contract-based deductive verification: VC generation over the real function bodies against //@ contracts (postconditions, loop invariants, call-site obligations, frames), z3/cvc5"),
 "C09": ("proof",
   "Lemma-level, proved on the real code: RootApp.Run returns nil only if Initialize, GetPackages, ParsePackages and every per-interface and per-file stage that ran returned nil (ghost last-error records carried through all loops), ends in os.Exit(1) when a listed interface is left in the missing map and returns nil only with that map empty; InterfaceCollection.Append returns nil exactly when file path, package name, source package and template agree; ParsePackages fails on packages with errors and skips failed scope lookups; ShouldExcludeSubpkg propagates regex errors; getTemplate/format/validateSchema/ParseTemplates fail on unknown template, unknown formatter, rejected template-data, cyclic values; findPkgPath terminates on every go.mod. Explicit no-panic obligations (nil map write, index, type assertion, explicit panic) are discharged in every function under contract. Not decided: unknown configuration keys (koanf), exit-status plumbing in main, panics inside libraries, stack exhaustion.",
   "DESIGN.md 6 C09", "Trusted: VC generator, go/types, solvers; os.Exit; deep.Copy total on configuration structs; library behaviour.", "contract-based deductive verification: VC generation over the real function bodies against //@ contracts (postconditions, loop invariants, call-site obligations, frames), z3/cvc5"),
 "C11": ("proof",
   "On the real Config.ParseTemplates, for all inputs: every template execution receives data with the documented bindings (Mock = Mock/mock by exportedness, InterfaceName, InterfaceFile, InterfaceDir, SrcPackageName, SrcPackagePath, StructName, Template, ConfigDir = dir of the config parameter) and the function library attached; err == nil implies that each of dir, filename, pkgname, structname and template-schema renders to itself (fixpoint; inductive invariant over a ghost visited set of the attribute map, pairwise-distinct attribute pointers as precondition); the outer loop has variant 21 - i, and reaching the 20-pass cap returns a non-nil error with nothing truncated. Partial: FindConfig, and the documented bases of ConfigDir/InterfaceDirRelative when the file was found by search (finding D11), are not covered.",
   "DESIGN.md 6 C11",
   "Trusted: VC generator, go/types, solvers; text/template rendering as a deterministic function render(text, data); bytes.Buffer; ast.IsExported/pathlib/filepath uninterpreted; axiom ErrInfiniteLoop != nil.",
   "contract-based deductive verification: call-site obligations for the bindings, loop invariants + variant for fixpoint and termination on the real ParseTemplates, z3/cvc5"),
 "C12": ("proof",
   "Proved on the real code: validateSchema returns nil exactly when the file-level template-data and every interface's template-data are valid against the schema (and errors on a nil schema); VerifyJSONSchema is nil iff gojsonschema validates; getTemplate returns, for built-in names, the embedded template with the built-in schema, for file://, http(s):// names the template at that URL and the schema at template-schema exactly when require-template-schema-exists is set (never a schema fetched for another URL), and an error for unknown names or failed downloads; RemoteTemplate downloads at most once and never caches an error as success (cache-entry invariant); in Generate validation of the data that is rendered happens before execution and formatting, and nothing is returned when any stage fails. Partial: JSON-schema semantics are gojsonschema's; downloads are an assumed function of the URL.",
   "DESIGN.md 6 C12", "Trusted: VC generator, go/types, solvers; gojsonschema uninterpreted; download(url) == content(url) (trusted contract); text/template.", "contract-based deductive verification: VC generation over the real function bodies against //@ contracts (postconditions, loop invariants, call-site obligations, frames), z3/cvc5"),
 "C13": ("proof",
   "Proved: Config.GetReplacement is the two-level lookup; methodData looks every parameter and every result up under exactly (package path, name) of its own named or alias type (nothing for composite types) and passes that replacement to AddVar for that variable only (call-site obligations); AddVar with a replacement takes the type of the named object in the loaded package and records only the replacement's package as the variable's import (so the original package is imported only if another variable needs it), without one it keeps the variable's type with the imports that type mentions; replace-type is inherited across config levels by mergeConfigs' typed-map postcondition (C08). Partial: packages.Load and rendering are assumed.",
   "DESIGN.md 6 C13", "Trusted: VC generator, go/types accessors as pure functions, solvers; packages.Load opaque.", "contract-based deductive verification: VC generation over the real function bodies against //@ contracts (postconditions, loop invariants, call-site obligations, frames), z3/cvc5"),
 "C14": ("proof",
   "Lemma-level, proved on the real code: methodData (method name; one Param per signature variable, in order, bound to that variable; variadic flag exactly on the last parameter of a variadic signature; results likewise), typeParams (one entry per type parameter, in order, built from its name and constraint), Generate (one Method per method of the looked-up interface, in order), ResolveVariableNameCollisions (afterwards names are pairwise distinct, none was visible before, all are visible now), varName/varNameForType (non-empty, never a keyword, predeclared type or template identifier), AddVar (the type string is reserved; the imports recorded for a variable cover every package its type mentions: cov specification by go/types constructor). Not decided: that the strings offered denote the same Go types (types.TypeString) and are valid identifiers.",
   "DESIGN.md 6 C14", "Trusted: VC generator, go/types accessors and the listed go/types axioms, solvers; types.TypeString.", "contract-based deductive verification: VC generation over the real function bodies against //@ contracts (postconditions, loop invariants, call-site obligations, frames), z3/cvc5"),
 "C02": ("proof",
   "Lemma-level, proved on the real code: Registry.LookupInterface returns the Complete()d interface of the object looked up by name and errors for missing or non-interface objects; Generate creates one Method per method of that interface in order from iface.Method(i); methodData reproduces parameter/result counts, order, variables and variadic-ness; ParsePackages/NodeVisitor never return function-local types (so a local type cannot duplicate its package-level namesake); the imports collected for each variable cover the packages of its type (so types are not rendered unqualified for lack of an import). Not decided: assignability of the rendered mock (Go type checker on template output).",
   "DESIGN.md 6 C02", "Trusted: VC generator, go/types accessors and axioms, solvers.", "contract-based deductive verification: VC generation over the real function bodies against //@ contracts (postconditions, loop invariants, call-site obligations, frames), z3/cvc5"),
 "C01": ("proof",
   "Lemma-level (necessary mechanisms, each proved on the real code): import completeness (populateImportsHelper/populateImportNamedType: after the call the import set covers every package the type expression mentions, by structural recursion over the go/types constructors, 12 cases, with loop invariants); qualifier bijection (C15); names avoid qualifiers/type strings/keywords/template identifiers (C14); findPkgPath creates only the output directory, terminates (variant 1000 - i) and takes the module path from the go.mod parser; NewTemplateGenerator's in-package test is exactly same package name and same directory; format dispatches the three documented formatters and errors otherwise. Not decided: that rendered text parses and type-checks (template text, types.TypeString, goimports).",
   "DESIGN.md 6 C01", "Trusted: VC generator, go/types accessors and axioms, the cov axioms as the definition of 'packages mentioned by a type', pathlib/modfile, solvers.", "contract-based deductive verification: VC generation over the real function bodies against //@ contracts (postconditions, loop invariants, call-site obligations, frames), z3/cvc5"),
 "C20": ("proof",
   "Proved on the real tools/cmd for all tag histories, versions and flag settings: largestTagSemver returns an upper bound, in semver order, of every existing full semantic-version tag (annotated or lightweight) with the requested major version (inductive invariant over the abstract sequence that Tags().ForEach visits); Tagger.Tag reaches createTag only when the requested version is strictly greater than that bound, the work-tree status is clean and all earlier steps succeeded, and otherwise returns ErrNoNewVersion or the error without any repository mutation (effect frame over a table of go-git mutators); createTag mutates nothing under DryRun and otherwise deletes/creates exactly the version tag and the major tag on HEAD; NewTagCmd gives --dry-run the default true and binds it on the viper instance NewTagger unmarshals from. Partial: the cobra closure's exit statuses, go-git internals (what CreateTag/DeleteTag touch) and semver's ordering are assumed.",
   "DESIGN.md 6 C20", "Trusted: VC generator, go/types, solvers; semver order axioms; go-git accessor purity, ForEach protocol and mutator table; viper flag binding semantics.", "contract-based deductive verification: VC generation over the real function bodies against //@ contracts (postconditions, loop invariants, call-site obligations, frames), z3/cvc5"),
}

NOT_APPLICABLE = {
 "C17": "not applicable to contract-based verification: marker line, boilerplate position and build-constraint layout are template text plus the Go toolchain's constraint parser; no function of mockery computes them (DESIGN.md 6 C17)",
}

def main():
    commits = subprocess.run(["git", "-C", "/repo", "log", "--format=%H %s", "d04751d..HEAD"], capture_output=True, text=True).stdout.strip().splitlines()
    hook_commits = [l.split()[0] for l in commits if l.split(" ", 1)[1].startswith("verif:")]
    checks = []
    for pid in ALL:
        if pid not in CHECKS:
            continue
        cat, text, ref, note, tech = CHECKS[pid]
        checks.append({
            "property_id": pid,
            "quick_cmd": f"/verif/bin/govc check {pid} --tier quick",
            "thorough_cmd": f"/verif/bin/govc check {pid} --tier thorough",
            "evidence_file": f"/verif/evidence/{pid}.json",
            "replay_cmd_template": "cat {path}",
            "engine": "govc",
            "level_claimed": {"category": cat, "text": text, "design_ref": ref},
            "level_note": note,
            "technique": tech,
        })
    na = []
    for pid in ALL:
        if pid in CHECKS:
            continue
        na.append({"property_id": pid, "reason": NOT_APPLICABLE.get(pid, "check not built yet (framework under construction); see DESIGN.md section 6 for the plan")})
    m = {
        "version": 1,
        "setup_cmd": "cd /verif/engine && GOFLAGS=-mod=mod GOPROXY=off GOTOOLCHAIN=local go build -o /verif/bin/govc ./cmd/govc",
        "hooks": {
            "guard": "verif",
            "enable": "-tags verif (comment-only contract files zz_verif_contracts.go; no runtime instrumentation)",
            "baseline_off_cmd": "cd /repo && GOPROXY=off go test -vet=off -count=1 ./...",
            "source_commits": hook_commits,
            "add_only": True,
        },
        "engines": [{
            "name": "govc", "path": "/verif/engine", "serves_properties": sorted(CHECKS),
            "kind_free_text": "self-written VC generator (forward symbolic execution over go/ast+go/types of the real functions in /repo against //@ contracts kept in build-tagged comment-only files; loops cut at invariants; calls modular) discharging SMT-LIB obligations with z3 5.1.0 / z3 4.8.12 / cvc5 1.0.3 raced per obligation",
        }],
        "checks": checks,
        "not_applicable": na,
        "notes": "See /verif/DESIGN.md. Known findings: /verif/known-findings.jsonl. Seeded property-breaking changes: /verif/seeded/.",
    }
    json.dump(m, open("/verif/MANIFEST.json", "w"), indent=1)
    print("checks:", [c["property_id"] for c in checks])

main()
