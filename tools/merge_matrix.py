#!/usr/bin/env python3
"""Merges the per-worker outputs of tools/seeded_matrix.py (MATRIX_WORKER=n) into
/verif/seeded/MATRIX.tsv and /verif/seeded/expected.json."""
import json, glob
rows, expected, head = [], {}, ""
for f in sorted(glob.glob("/var/tmp/scratch/matrix-part*.json")):
    d = json.load(open(f))
    rows += d["rows"]; expected.update(d["expected"]); head = d["head"]
rows.sort()
with open("/verif/seeded/MATRIX.tsv", "w") as f:
    f.write(f"# seeded change x quick checks that can be affected by the files it touches, /repo HEAD {head}; columns: id, checks reporting a VIOLATION [first obligations], checks UNDECIDED, checks run and clean\n")
    for r in rows:
        f.write("\t".join(r) + "\n")
json.dump(expected, open("/verif/seeded/expected.json", "w"), indent=1, sort_keys=True)
print(len(rows), "rows;", sum(1 for r in rows if r[1] != "none" and not r[1].startswith("PATCH")), "reported")
