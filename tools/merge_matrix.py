#!/usr/bin/env python3
"""Merges the per-worker outputs of tools/seeded_matrix.py (MATRIX_WORKER=n) into
/verif/seeded/MATRIX.tsv and /verif/seeded/expected.json."""
import json, glob, os
byid, expected, heads = {}, {}, []
# rows of changes that were not re-run are kept
if os.path.exists("/verif/seeded/MATRIX.tsv"):
    for l in open("/verif/seeded/MATRIX.tsv").read().splitlines()[1:]:
        f = l.split("\t")
        if len(f) >= 4:
            byid[f[0]] = f[:4]
if os.path.exists("/verif/seeded/expected.json"):
    expected = json.load(open("/verif/seeded/expected.json"))
for f in sorted(glob.glob("/var/tmp/scratch/matrix-part*.json")):   # later parts (re-runs) override earlier ones
    d = json.load(open(f))
    for r in d["rows"]:
        byid[r[0]] = r
        expected.pop(r[0], None)
    expected.update(d["expected"])
    if d["head"] not in heads:
        heads.append(d["head"])
rows = [byid[k] for k in sorted(byid)]
head = ", ".join(heads)
with open("/verif/seeded/MATRIX.tsv", "w") as f:
    f.write(f"# seeded change x quick checks that can be affected by the files it touches, /repo HEAD {head}; columns: id, checks reporting a VIOLATION [first obligations], checks UNDECIDED, checks run and clean\n")
    for r in rows:
        f.write("\t".join(r) + "\n")
json.dump(expected, open("/verif/seeded/expected.json", "w"), indent=1, sort_keys=True)
print(len(rows), "rows;", sum(1 for r in rows if r[1] != "none" and not r[1].startswith("PATCH")), "reported")
