#!/bin/bash
# usage: tools/run_all.sh [--update-baseline] [--tier quick|thorough]
# Runs every registered check on /repo's current tree, one after the other.
cd /verif
rc=0
for p in $(python3 -c "import json;print(' '.join(c['property_id'] for c in json.load(open('/verif/MANIFEST.json'))['checks']))"); do
  out=$(/verif/bin/govc check $p "$@" 2>&1); r=$?
  echo "$out" | grep -E "^(VIOLATION|UNDECIDED|KNOWN-FINDING)" | cut -c1-240
  echo "$out" | tail -1
  [ $r -ne 0 ] && rc=1
done
exit $rc
