#!/bin/bash
# usage: tools/seeded_matrix.sh [id ...]      (default: every /verif/seeded/<id>)
# For every seeded change: apply it in a scratch worktree of /repo's HEAD (outside /repo and /verif),
# run every registered quick check against that worktree (VERIF_REPO) with evidence redirected
# (VERIF_OUT), and record which checks report a VIOLATION.  Writes /verif/seeded/MATRIX.tsv.
set -u
WT=/var/tmp/scratch/wt-matrix
OUT=/var/tmp/scratch/matrix-out
git -C /repo worktree remove --force $WT >/dev/null 2>&1
git -C /repo worktree add --detach $WT HEAD -q || exit 2
mkdir -p $OUT
props=$(python3 -c "import json;print(' '.join(c['property_id'] for c in json.load(open('/verif/MANIFEST.json'))['checks']))")
ids="$@"; [ -z "$ids" ] && ids=$(ls -d /verif/seeded/*/ | xargs -n1 basename)
for id in $ids; do
  d=/verif/seeded/$id
  git -C $WT checkout -q -- . ; git -C $WT clean -fdq
  if ! git -C $WT apply $d/patch.diff 2>/dev/null; then echo -e "$id\tPATCH-DOES-NOT-APPLY"; continue; fi
  caught=""; undec=""
  for p in $props; do
    o=$(VERIF_REPO=$WT VERIF_OUT=$OUT /verif/bin/govc check $p 2>&1); r=$?
    if [ $r -ne 0 ]; then
      ob=$(echo "$o" | grep '^VIOLATION' | sed 's/.*obligation=\([^ ]*\).*/\1/' | head -3 | tr '\n' ',')
      caught="$caught $p[${ob%,}]"
    elif echo "$o" | grep -q '^UNDECIDED'; then undec="$undec $p"; fi
  done
  echo -e "$id\tcaught:${caught:- none}\tundecided:${undec:- none}"
done
git -C /repo worktree remove --force $WT
rm -rf $OUT
