#!/usr/bin/env python3
"""Debug aid: find a counter-model of a failed obligation modulo dropped quantified facts.
usage: cex.py file.smt2 [keep-regex] -- drops quantified assertions (also the prelude's) unless they match keep-regex,
skolemises a negated universal goal, and prints the model of all 0-ary constants mentioned in the goal."""
import re, subprocess, sys
f = sys.argv[1]
keep = re.compile(sys.argv[2]) if len(sys.argv) > 2 else None
lines = open(f).read().split('\n')
out = []
for ln in lines:
    if ln.startswith('(get-value') or ln.startswith('(check-sat'):
        continue
    if ('forall' in ln or 'exists' in ln) and ln.startswith('(assert') and not ln.startswith('(assert (not'):
        if not (keep and keep.search(ln)):
            continue
    out.append(ln)
s = '\n'.join(out)
m = re.search(r'\(assert \(not \(forall \(((?:\(\w+ [^()]+\)\s*)+)\) (.*)\)\)\)\s*$', s, re.S)
goal_terms = []
if m:
    binders = re.findall(r'\((\w+) ([^()]+)\)', m.group(1))
    body = m.group(2)
    decl = ''
    for (v, srt) in binders:
        body = re.sub(r'\b%s\b' % re.escape(v), 'sk_' + v, body)
        decl += '(declare-const sk_%s %s)\n' % (v, srt)
        goal_terms.append('sk_' + v)
    s = s[:m.start()] + decl + '(assert (not ' + body + '))'
    gtxt = body
else:
    gtxt = s[s.rfind('(assert (not'):]
def subterms(txt, prefix):
    res = []
    i = 0
    while True:
        i = txt.find(prefix, i)
        if i < 0:
            break
        d = 0
        for j in range(i, len(txt)):
            if txt[j] == '(':
                d += 1
            elif txt[j] == ')':
                d -= 1
                if d == 0:
                    res.append(txt[i:j + 1])
                    break
        i += 1
    return res
extra = []
for t in subterms(gtxt, '(select F_') + subterms(gtxt, '(spec_'):
    if t not in extra and len(t) < 400:
        extra.append(t)
extra = extra[:60]
consts = sorted(set(re.findall(r'[A-Za-z_][\w]*![0-9]+', gtxt)))
decls = dict(re.findall(r'\(declare-const (\S+) ([^\n]+)\)', s))
simple = [c for c in consts if decls.get(c, '').strip() in ('Int', 'Bool', 'Str')]
s += '\n(check-sat)\n(get-value (' + ' '.join(goal_terms + simple + extra) + '))\n'
open('/tmp/cex.smt2', 'w').write(s)
print(subprocess.run(['z3-new', '-T:30', '/tmp/cex.smt2'], capture_output=True, text=True).stdout[:12000])
