#!/usr/bin/env python3
"""Print the prompt given to an independent sub-agent that seeds a property-breaking change.
Only the property's title+statement and a scratch worktree path are given (nothing from /verif)."""
import json, sys
pid = sys.argv[1]
wt = f"/tmp/mut/wt-{pid}"
out = f"/tmp/mut/out/{pid}"
for l in open('/verif/properties.jsonl'):
    p = json.loads(l)
    if p['id'] == pid:
        break
else:
    sys.exit("no such property")
print(f"""You are helping test a verification effort for the open-source Go project vektra/mockery (v3), a CLI that generates mock implementations of Go interfaces.

You have your own scratch git worktree of the project at {wt} (detached HEAD). Work ONLY inside {wt} and {out}. Never touch /repo or /verif, and never read anything under /verif.

## The property

"{p['title']}"

{p['statement']}

## Your task

Produce TWO independent, realistic changes (call them A and B) to the project's own source (Go files or the embedded templates under {wt}; not tests, not fixtures, not checked-in generated mocks) such that each change:

1. BREAKS the property above (for some input / configuration / call sequence),
2. still COMPILES, and
3. still PASSES the project's existing test suite, unedited (command below), and
4. is SUBTLE: it needs something specific to manifest -- an unusual input, a particular combination of settings, a multi-step sequence of operations, a particular interleaving, or two cooperating sites that each look fine alone. Do NOT produce changes that ordinary use of the tool would expose at once (e.g. breaking every generated mock). Think of the kind of regression a plausible refactor, "optimisation" or well-meant bug-fix could introduce. A and B must break the property through different mechanisms / different functions.

For each change also write a DEMONSTRATION: a Go test (or small program / shell script driving a freshly built binary in a scratch module under {out}) that FAILS with the change applied and PASSES on the unchanged tree. You must actually run it both ways and confirm.

## Environment (important, the sandbox is offline)

- No network. Do not try to download anything. Go module cache is pre-populated.
- Run go commands inside {wt} with GOFLAGS unset (the repo is a go.work workspace; `GOFLAGS=-mod=mod` breaks it) and with `GOPROXY=off`. Do NOT set GOSUMDB=off or GOTOOLCHAIN=local (the repo needs the cached go1.23.7 toolchain auto-switch).
- Existing test suite: `cd {wt} && GOPROXY=off go test -vet=off -count=1 ./...` (about 25 s). It must pass with each change applied (apply A alone, then B alone).
- Build the CLI: `cd {wt} && GOPROXY=off go build -o {out}/mockery .`
- An in-package demonstration test can simply be a new `*_test.go` file placed in the relevant package directory of the worktree (keep a copy under {out}); a scratch module for driving the binary should live under {out} (a module that only uses the standard library, or testify which is in the module cache via the worktree's go.mod: put such scratch packages inside the worktree tree if they need the project's dependencies).
- `-overlay` does not apply to go:embed files; edit templates in the worktree directly.

## Deliverables (write these files)

- {out}/A/patch.diff and {out}/B/patch.diff : output of `git -C {wt} diff` for that change alone (source change only, WITHOUT the demonstration test), applying cleanly to the pristine HEAD with `git apply`.
- {out}/A/demo/... and {out}/B/demo/... : the demonstration files, plus {out}/A/demo/RUN.md saying exactly where each file goes (path relative to the repository root) and the exact command to run it, and the expected failing/passing output.
- {out}/A/meta.json and {out}/B/meta.json : {{"property": "{pid}", "summary": "...", "needs_to_manifest": "...", "files_changed": [...], "suite_passed_with_change": true, "demo_fails_with_change": true, "demo_passes_without_change": true, "commands_run": [...]}}

When finished, restore the worktree to pristine state (`git -C {wt} checkout -- . && git -C {wt} clean -fdq`) and remove any large build outputs you created (the mockery binary under {out} included). Your final message should briefly summarise A and B (what was changed, what is needed to see the breakage). If after honest effort you can only produce one qualifying change, deliver that one and say so.
""")
