#!/usr/bin/env python3
"""usage: tools/seeded_matrix.py [--all-checks] [id ...]   (default ids: every /verif/seeded/<id>/)

For every seeded change: apply it in a scratch worktree of /repo's HEAD (outside /repo and /verif), run
the quick checks that can be affected by the files it touches (all checks with --all-checks) against
that worktree (VERIF_REPO) with evidence redirected (VERIF_OUT), and record which checks report a
VIOLATION. Writes /verif/seeded/MATRIX.tsv and /verif/seeded/expected.json (id -> checks that report it;
used by the must-fail phase of the thorough tier)."""
import json, os, subprocess, sys, shutil

HEAD_AT_START = ""
W = os.environ.get("MATRIX_WORKER", "")
WT = "/var/tmp/scratch/wt-matrix" + W
OUT = "/var/tmp/scratch/matrix-out" + W
INSTANCE = ["C03", "C04", "C05", "C06"]   # (C06: every function of the generation path carries obligations)
# A change in package P can alter only the obligations of functions of P (verification is modular: other
# packages see P's contracts, not its bodies), so the checks that can be affected are the properties that
# P's contract file mentions, plus the instance-wise checks for anything on the generation path.
import re
def props_of_dir(d):
    f = f"/repo/{d}/zz_verif_contracts.go"
    if not os.path.exists(f):
        return None
    return sorted(set(re.findall(r"C\d\d", open(f).read())))
BY_DIR = {d: props_of_dir(d) for d in ["template_funcs", "template", "config", "internal/cmd", "internal", "tools/cmd"]}
BY_DIR["internal"] = sorted(set(BY_DIR["internal"]) | {"C08"})   # RootApp.Run inlines helpers of internal/ and config/
BY_DIR["tools"] = BY_DIR["tools/cmd"]

def affected(files, allprops):
    props = set()
    for f in files:
        if f.endswith(".templ"):
            props.update(INSTANCE + ["C17"])
            continue
        d = os.path.dirname(f)
        hit = False
        for k in sorted(BY_DIR, key=len, reverse=True):
            if d == k or d.startswith(k + "/"):
                props.update(BY_DIR[k]); hit = True
                break
        if not hit:
            return list(allprops)
        if not d.startswith("tools"):
            props.add("C06")   # every function of the generation path carries C06 obligations
        if not d.startswith("tools") and not d.startswith("internal/cmd"):
            props.update(INSTANCE)   # anything on the generation path can change the generated mocks
    return [p for p in allprops if p in props]

def main():
    args = sys.argv[1:]
    allchecks = "--all-checks" in args
    ids = [a for a in args if not a.startswith("--")]
    if not ids:
        ids = sorted(d for d in os.listdir("/verif/seeded") if os.path.isfile(f"/verif/seeded/{d}/patch.diff"))
    allprops = [c["property_id"] for c in json.load(open("/verif/MANIFEST.json"))["checks"]]
    subprocess.run(["git", "-C", "/repo", "worktree", "remove", "--force", WT], capture_output=True)
    subprocess.run(["git", "-C", "/repo", "worktree", "add", "--detach", WT, "HEAD", "-q"], check=True)
    os.makedirs(OUT, exist_ok=True)
    global HEAD_AT_START
    HEAD_AT_START = subprocess.run(["git", "-C", WT, "rev-parse", "--short", "HEAD"], capture_output=True, text=True).stdout.strip()
    rows, expected = [], {}
    old = {}
    if os.path.exists("/verif/seeded/expected.json") and len(ids) < 38:
        old = json.load(open("/verif/seeded/expected.json"))
    try:
        for i in ids:
            d = f"/verif/seeded/{i}"
            subprocess.run(["git", "-C", WT, "checkout", "-q", "--", "."]); subprocess.run(["git", "-C", WT, "clean", "-fdq"])
            if subprocess.run(["git", "-C", WT, "apply", f"{d}/patch.diff"], capture_output=True).returncode != 0:
                rows.append((i, "PATCH-DOES-NOT-APPLY", "", "")); print(rows[-1], flush=True); continue
            files = subprocess.run(["git", "-C", WT, "diff", "--name-only"], capture_output=True, text=True).stdout.split()
            props = allprops if allchecks else affected(files, allprops)
            caught, undec, clean = [], [], []
            env = dict(os.environ, VERIF_REPO=WT, VERIF_OUT=OUT, VERIF_MAXRETRY="3")
            for p in props:
                r = subprocess.run(["/verif/bin/govc", "check", p], capture_output=True, text=True, env=env)
                if r.returncode != 0:
                    obs = [l.split("obligation=")[1].split()[0] for l in r.stdout.splitlines() if l.startswith("VIOLATION") and "obligation=" in l][:2]
                    caught.append(f"{p}[{', '.join(obs)}]")
                    expected.setdefault(i, []).append(p)
                elif "UNDECIDED" in r.stdout:
                    undec.append(p)
                else:
                    clean.append(p)
            rows.append((i, " ".join(caught) or "none", " ".join(undec) or "-", " ".join(clean) or "-"))
            print(rows[-1], flush=True)
    finally:
        subprocess.run(["git", "-C", "/repo", "worktree", "remove", "--force", WT], capture_output=True)
        shutil.rmtree(OUT, ignore_errors=True)
    for k, v in old.items():
        expected.setdefault(k, v) if k not in ids else None
    head = HEAD_AT_START
    if W:
        json.dump({"rows": rows, "expected": expected, "head": head}, open(f"/var/tmp/scratch/matrix-part{W}.json", "w"))
        return
    if len(ids) >= 38:
        with open("/verif/seeded/MATRIX.tsv", "w") as f:
            f.write(f"# seeded change x quick checks, /repo HEAD {head}; columns: id, checks reporting a VIOLATION [first obligations], checks UNDECIDED, checks run and clean\n")
            for r in rows:
                f.write("\t".join(r) + "\n")
    json.dump(expected, open("/verif/seeded/expected.json", "w"), indent=1, sort_keys=True)

main()
