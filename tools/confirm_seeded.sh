#!/bin/bash
# usage: tools/confirm_seeded.sh <src-dir-with-<id>/ subdirs> [id ...]
# Confirms seeded changes in a scratch worktree of /repo's HEAD (outside /repo and /verif):
#  a. demo passes on the clean tree, b. the patch applies and the test suite passes with it,
#  c. the demo fails with it.  Results: <src>/<id>/confirm.json ; the worktree is removed at the end.
set -u
SRC="$1"; shift
WT=/var/tmp/scratch/wt-confirm${CONFIRM_WORKER:-}
git -C /repo worktree remove --force $WT >/dev/null 2>&1
git -C /repo worktree add --detach $WT HEAD -q || exit 2
ids="$@"; [ -z "$ids" ] && ids=$(ls $SRC)
for id in $ids; do
  d=$SRC/$id
  [ -f $d/patch.diff ] || continue
  git -C $WT checkout -q -- . ; git -C $WT clean -fdq
  run_demo() { if head -1 $d/demo/demo.sh | grep -q bash; then bash $d/demo/demo.sh "$@"; else sh $d/demo/demo.sh "$@"; fi; }
  run_demo $WT > $d/confirm_clean.log 2>&1; a=$?
  dirty_a=$(git -C $WT status --porcelain | wc -l)
  if git -C $WT apply $d/patch.diff 2>$d/confirm_apply.log; then ap=ok; else ap=fail; fi
  (cd $WT && env -u GOFLAGS GOPROXY=off go build ./... && env -u GOFLAGS GOPROXY=off go test -vet=off -count=1 ./...) > $d/confirm_suite.log 2>&1; s=$?
  if grep -q "^tools/" <(git -C $WT diff --name-only); then
    (cd $WT/tools && env -u GOFLAGS GOPROXY=off go build ./... && env -u GOFLAGS GOPROXY=off go test -vet=off -count=1 ./...) >> $d/confirm_suite.log 2>&1 || s=1
  fi
  run_demo $WT > $d/confirm_patched.log 2>&1; c=$?
  git -C $WT checkout -q -- . ; git -C $WT clean -fdq
  head=$(git -C /repo rev-parse --short HEAD)
  echo "{\"id\":\"$id\",\"repo_head\":\"$head\",\"demo_clean_exit\":$a,\"tree_dirty_after_clean_demo\":$dirty_a,\"patch_applies\":\"$ap\",\"suite_with_patch_exit\":$s,\"demo_patched_exit\":$c}" > $d/confirm.json
  cat $d/confirm.json
done
git -C /repo worktree remove --force $WT
