#!/bin/bash
# Rebuilds the verifier, re-runs every quick check on /repo's current tree (evidence and, with
# --update-baseline, baselines), regenerates MANIFEST.json and the generated tables of DESIGN.md and
# validates MANIFEST and evidence against their schemas.
set -e
cd /verif/engine && GOFLAGS=-mod=mod GOPROXY=off go build -o /verif/bin/govc ./cmd/govc
cd /verif
python3 tools/gen_manifest.py >/dev/null
tools/run_all.sh "$@" | grep -v "^KNOWN-FINDING" | cut -c1-160
python3 tools/design_tables.py >/dev/null
python3-vt - <<'PY'
import json, jsonschema, glob
jsonschema.validate(json.load(open('/verif/MANIFEST.json')), json.load(open('/root/.vp/MANIFEST.schema.json')))
sch = json.load(open('/root/.vp/EVIDENCE.schema.json'))
for f in sorted(glob.glob('/verif/evidence/*.json')):
    d = json.load(open(f)); jsonschema.validate(d, sch)
    c = d['coverage']
    assert d['tier'] == 'quick', (f, d['tier'])
    assert c['obligations'] == c['discharged'], f
print('manifest and evidence valid; all evidence quick-tier with discharged == obligations')
PY
