#!/bin/bash
# usage: tools/try_mutant.sh <patch.diff> <property> [<property> ...]
# Applies a seeded change to /repo, runs the quick checks of the given properties, and restores
# /repo exactly (refuses to run when /repo has uncommitted changes, so nothing can be lost).
set -u
patch="$1"; shift
if [ -n "$(git -C /repo status --porcelain)" ]; then
  echo "REFUSING: /repo has uncommitted changes"; git -C /repo status --short; exit 2
fi
if ! git -C /repo apply -3 "$patch" 2>/tmp/try_mutant.err; then
  echo "PATCH DOES NOT APPLY: $patch"; cat /tmp/try_mutant.err; git -C /repo reset -q --hard HEAD; exit 2
fi
rc=0
for p in "$@"; do
  /verif/bin/govc check "$p" > /tmp/try_mutant.out 2>&1; r=$?
  grep -E "^(VIOLATION|UNDECIDED|KNOWN-FINDING)" /tmp/try_mutant.out | cut -c1-220 | head -12
  tail -1 /tmp/try_mutant.out
  echo "   => $p exit=$r"
  [ $r -ne 0 ] && rc=1
done
git -C /repo reset -q --hard HEAD
git -C /repo clean -fdq -- . >/dev/null 2>&1
git -C /verif checkout -q -- evidence 2>/dev/null
exit $rc
