#!/usr/bin/env python3
"""usage: tools/benign_matrix.py [--all-checks] [name ...]   (default: every /verif/benign/<name>.diff)

The false-alarm corpus: behaviour-preserving changes to vektra/mockery (renamed locals, reordered
independent statements, extracted helpers, rewritten conditionals, template-local renames ...), written by
sub-agents that saw only the property list and the source. Each is applied in a scratch worktree of /repo's
HEAD (outside /repo and /verif) and the quick checks that its files can affect are run against that
worktree. No check may print VIOLATION; UNDECIDED is tolerated but listed. Writes /verif/benign/MATRIX.tsv.
MATRIX_WORKER=n/m runs the n-th of m slices and writes /var/tmp/scratch/benign-part<n>.json instead."""
import json, os, re, subprocess, sys, shutil

W = os.environ.get("MATRIX_WORKER", "")
wi, wn = (int(W.split("/")[0]), int(W.split("/")[1])) if W else (0, 1)
WT = f"/var/tmp/scratch/wt-benign{wi}"
OUT = f"/var/tmp/scratch/benign-out{wi}"
INSTANCE = ["C03", "C04", "C05", "C06"]   # (C06: every function of the generation path carries obligations)

def props_of_dir(d):
    f = f"/repo/{d}/zz_verif_contracts.go"
    return sorted(set(re.findall(r"C\d\d", open(f).read()))) if os.path.exists(f) else None
BY_DIR = {d: props_of_dir(d) for d in ["template_funcs", "template", "config", "internal/cmd", "internal", "tools/cmd"]}
BY_DIR["internal"] = sorted(set(BY_DIR["internal"]) | {"C08"})
BY_DIR["tools"] = BY_DIR["tools/cmd"]

def affected(files, allprops):
    props = set()
    for f in files:
        if f.endswith(".templ"):
            props.update(INSTANCE + ["C01", "C02", "C17"]); continue
        d = os.path.dirname(f)
        hit = False
        for k in sorted(BY_DIR, key=len, reverse=True):
            if d == k or d.startswith(k + "/"):
                props.update(BY_DIR[k]); hit = True; break
        if not hit:
            return list(allprops)
        if not d.startswith("tools"):
            props.add("C06")   # every function of the generation path carries C06 obligations
        if not d.startswith("tools") and not d.startswith("internal/cmd"):
            props.update(INSTANCE)
    return [p for p in allprops if p in props]

def main():
    args = sys.argv[1:]
    allchecks = "--all-checks" in args
    names = [a for a in args if not a.startswith("--")]
    if not names:
        names = sorted(f[:-5] for f in os.listdir("/verif/benign") if f.endswith(".diff"))
    names = [n for i, n in enumerate(names) if i % wn == wi]
    allprops = [c["property_id"] for c in json.load(open("/verif/MANIFEST.json"))["checks"]]
    subprocess.run(["git", "-C", "/repo", "worktree", "remove", "--force", WT], capture_output=True)
    subprocess.run(["git", "-C", "/repo", "worktree", "add", "--detach", WT, "HEAD", "-q"], check=True)
    os.makedirs(OUT, exist_ok=True)
    head = subprocess.run(["git", "-C", WT, "rev-parse", "--short", "HEAD"], capture_output=True, text=True).stdout.strip()
    rows = []
    try:
        for n in names:
            subprocess.run(["git", "-C", WT, "checkout", "-q", "--", "."]); subprocess.run(["git", "-C", WT, "clean", "-fdq"])
            if subprocess.run(["git", "-C", WT, "apply", f"/verif/benign/{n}.diff"], capture_output=True).returncode != 0:
                rows.append((n, "PATCH-DOES-NOT-APPLY", "", "")); print(rows[-1], flush=True); continue
            files = subprocess.run(["git", "-C", WT, "diff", "--name-only"], capture_output=True, text=True).stdout.split()
            props = allprops if allchecks else affected(files, allprops)
            alarms, undec, clean = [], [], []
            env = dict(os.environ, VERIF_REPO=WT, VERIF_OUT=OUT)
            for p in props:
                r = subprocess.run(["/verif/bin/govc", "check", p], capture_output=True, text=True, env=env)
                if r.returncode != 0 or "VIOLATION" in r.stdout:
                    obs = [l.split("obligation=")[1].split()[0] for l in r.stdout.splitlines() if l.startswith("VIOLATION") and "obligation=" in l][:3]
                    alarms.append(f"{p}[{', '.join(obs)}]")
                elif "UNDECIDED" in r.stdout:
                    obs = [l.split("obligation=")[1].split()[0] for l in r.stdout.splitlines() if l.startswith("UNDECIDED") and "obligation=" in l][:2]
                    undec.append(f"{p}[{', '.join(obs)}]")
                else:
                    clean.append(p)
            rows.append((n, " ".join(alarms) or "none", " ".join(undec) or "-", " ".join(clean) or "-"))
            print(rows[-1], flush=True)
    finally:
        subprocess.run(["git", "-C", "/repo", "worktree", "remove", "--force", WT], capture_output=True)
        shutil.rmtree(OUT, ignore_errors=True)
    if W:
        json.dump({"rows": rows, "head": head}, open(f"/var/tmp/scratch/benign-part{wi}.json", "w"))
        return
    write(rows, head)

def write(rows, head):
    # rows of changes that were not re-run are kept
    old = {}
    if os.path.exists("/verif/benign/MATRIX.tsv"):
        for l in open("/verif/benign/MATRIX.tsv").read().splitlines()[1:]:
            f = l.split("\t")
            if len(f) >= 4:
                old[f[0]] = tuple(f[:4])
    for r in rows:
        old[r[0]] = tuple(r)
    rows = list(old.values())
    with open("/verif/benign/MATRIX.tsv", "w") as f:
        f.write(f"# behaviour-preserving change x quick checks, /repo HEAD {head}; columns: name, checks that raised an alarm (must be none), checks UNDECIDED, checks run and clean\n")
        for r in sorted(rows):
            f.write("\t".join(r) + "\n")

if __name__ == "__main__":
    if len(sys.argv) > 1 and sys.argv[1] == "--merge":
        rows, head = [], ""
        for p in sorted(os.listdir("/var/tmp/scratch")):
            if re.fullmatch(r"benign-part\d+\.json", p):
                d = json.load(open("/var/tmp/scratch/" + p)); rows += [tuple(r) for r in d["rows"]]; head = d["head"]
        write(rows, head)
    else:
        main()
