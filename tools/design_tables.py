#!/usr/bin/env python3
"""Regenerates the generated regions of /verif/DESIGN.md:
   <!-- BEGIN:counts --> ... <!-- END:counts -->   obligation counts per check, from /verif/evidence/*.json
   <!-- BEGIN:matrix --> ... <!-- END:matrix -->   seeded change x checks, from /verif/seeded/MATRIX.tsv"""
import json, glob, os, re

def counts():
    rows = ["| id | level | obligations | discharged | known findings | functions (or generated functions) under contract | wall s |",
            "|----|-------|------------:|-----------:|---------------:|---------------------------------------------:|-------:|"]
    for f in sorted(glob.glob("/verif/evidence/*.json")):
        d = json.load(open(f)); c = d["coverage"]
        rows.append("| %s | %s | %d | %d | %d | %d | %.0f |" % (d["property_id"], d["level"], c["obligations"], c["discharged"],
                    len(c.get("known_findings") or []), len(c.get("functions_under_contract") or []), d["wall_s"]))
    return "\n".join(rows)

def matrix():
    p = "/verif/seeded/MATRIX.tsv"
    if not os.path.exists(p):
        return "(matrix not generated yet: run tools/seeded_matrix.py)"
    lines = open(p).read().splitlines()
    out = [lines[0].lstrip("# "), "", "| change | reported by (first failing obligations) | undecided | run and clean |", "|---|---|---|---|"]
    for l in lines[1:]:
        f = l.split("\t")
        if len(f) >= 4:
            out.append("| %s | %s | %s | %s |" % (f[0], f[1].replace("|", "/"), f[2], f[3]))
    return "\n".join(out)

def benign():
    p = "/verif/benign/MATRIX.tsv"
    if not os.path.exists(p):
        return "(matrix not generated yet: run tools/benign_matrix.py)"
    lines = open(p).read().splitlines()
    out = [lines[0].lstrip("# "), "", "| change | alarms (must be none) | undecided | run and clean |", "|---|---|---|---|"]
    for l in lines[1:]:
        f = l.split("\t")
        if len(f) >= 4:
            what = ""
            t = "/verif/benign/%s.txt" % f[0]
            out.append("| %s | %s | %s | %s |" % (f[0], f[1].replace("|", "/"), f[2].replace("|", "/"), f[3]))
    return "\n".join(out)

s = open("/verif/DESIGN.md").read()
for name, fn in (("counts", counts), ("matrix", matrix), ("benign", benign)):
    s = re.sub(r"(<!-- BEGIN:%s -->).*?(<!-- END:%s -->)" % (name, name), lambda m: m.group(1) + "\n" + fn() + "\n" + m.group(2), s, flags=re.S)
open("/verif/DESIGN.md", "w").write(s)
print("ok")
