package main

import (
	"fmt"
	"golang.org/x/tools/go/packages"
)

func main() {
	cfg := &packages.Config{Mode: packages.LoadAllSyntax, Dir: "/repo", BuildFlags: []string{"-tags=verif"}}
	pkgs, err := packages.Load(cfg, "./template", "./template_funcs")
	fmt.Println(len(pkgs), err)
	for _, p := range pkgs { fmt.Println(p.PkgPath, len(p.Syntax), p.Errors) }
}
