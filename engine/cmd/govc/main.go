// govc: contract-based deductive verification of vektra/mockery (see /verif/DESIGN.md).
package main

import (
	"os"

	"verif/engine/driver"
)

func main() {
	os.Exit(driver.Main(os.Args[1:]))
}
