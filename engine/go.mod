module verif/engine

go 1.23.0

require golang.org/x/tools v0.31.0

require (
	golang.org/x/mod v0.24.0 // indirect
	golang.org/x/sync v0.12.0 // indirect
)
