package driver

import (
	"fmt"
	"go/ast"
	"go/types"
	"sort"
	"strings"

	"verif/engine/symex"
)

// scanCmd: govc scan : list the order/time/identity sources of the loaded packages (exploration aid).
func scanCmd(args []string) int {
	w, err := symex.Load(repoDir(), allPatterns, nil)
	if err != nil {
		fmt.Println("load error:", err)
		return 2
	}
	var lines []string
	for _, fi := range w.Funcs {
		info := fi.Pkg.TypesInfo
		ast.Inspect(fi.Decl, func(n ast.Node) bool {
			switch n := n.(type) {
			case *ast.RangeStmt:
				if t := info.TypeOf(n.X); t != nil {
					if _, ok := t.Underlying().(*types.Map); ok {
						lines = append(lines, fmt.Sprintf("%s maprange %s  %s", w.Fset.Position(n.Pos()), fi.Name, types.ExprString(n.X)))
					}
					if _, ok := t.Underlying().(*types.Signature); ok {
						lines = append(lines, fmt.Sprintf("%s funcrange %s  %s", w.Fset.Position(n.Pos()), fi.Name, types.ExprString(n.X)))
					}
					if _, ok := t.Underlying().(*types.Chan); ok {
						lines = append(lines, fmt.Sprintf("%s chanrange %s  %s", w.Fset.Position(n.Pos()), fi.Name, types.ExprString(n.X)))
					}
				}
			case *ast.GoStmt:
				lines = append(lines, fmt.Sprintf("%s go %s", w.Fset.Position(n.Pos()), fi.Name))
			case *ast.SelectStmt:
				lines = append(lines, fmt.Sprintf("%s select %s", w.Fset.Position(n.Pos()), fi.Name))
			}
			return true
		})
	}
	sort.Strings(lines)
	for _, l := range lines {
		fmt.Println(l)
	}
	for _, r := range w.OrderCheck(orderScope) {
		if r.Kind == "sources" && r.OK {
			continue
		}
		fmt.Printf("%-5v %s\n      class: %s\n      assumed: %s\n      reason: %s\n      assumes: %v\n", r.OK, r.Name, r.Class, r.Assumed, r.Reason, r.Assumes)
	}
	return 0
}

// orderScope: the functions on the generation path (C06): everything in the generator's packages except
// the sub-commands that do not generate (init, migrate, showconfig, version) and the release tooling.
func orderScope(fi *symex.FuncInfo) bool {
	p := fi.Pkg.PkgPath
	if strings.Contains(p, "/tools") || strings.HasSuffix(p, "/internal/logging") {
		return false
	}
	file := fi.Pkg.Fset.Position(fi.Decl.Pos()).Filename
	for _, ex := range []string{"/internal/cmd/migrate.go", "/internal/cmd/init.go", "/internal/cmd/showconfig.go", "/internal/cmd/version.go"} {
		if strings.HasSuffix(file, ex) {
			return false
		}
	}
	return true
}
