package driver

import (
	"encoding/json"
	"fmt"
	"os"
	"path/filepath"
	"regexp"
	"sort"
	"strconv"
	"strings"
	"sync"
	"time"

	"verif/engine/symex"
)

const verifDir = "/verif"

// outDir is where evidence, replay files and scratch queries go: /verif, unless VERIF_OUT redirects them
// (used only by tools/seeded_matrix.sh, which checks seeded changes in a scratch worktree via VERIF_REPO
// without touching the evidence of the real tree).
func outDir() string {
	if d := os.Getenv("VERIF_OUT"); d != "" {
		return d
	}
	return verifDir
}

type knownFinding struct {
	Fixed      bool   `json:"fixed,omitempty"`
	Property   string `json:"property"`
	Obligation string `json:"obligation,omitempty"`
	// ObligationRe: a finding that shows at many program points of generated code (one per corpus instance)
	// is identified by a regular expression over obligation names instead of one name
	ObligationRe string `json:"obligation_regex,omitempty"`
	Witness      string `json:"witness,omitempty"`
	Symptom      string `json:"symptom,omitempty"`
	Commit       string `json:"commit,omitempty"`
	What         string `json:"what,omitempty"`
	Replay       string `json:"replay,omitempty"`
}

func loadKnownFindings() []knownFinding {
	data, err := os.ReadFile(filepath.Join(verifDir, "known-findings.jsonl"))
	if err != nil {
		return nil
	}
	var out []knownFinding
	for _, ln := range strings.Split(string(data), "\n") {
		ln = strings.TrimSpace(ln)
		if ln == "" || strings.HasPrefix(ln, "#") {
			continue
		}
		var k knownFinding
		if json.Unmarshal([]byte(ln), &k) == nil {
			out = append(out, k)
		}
	}
	return out
}

type baseline struct {
	Locals      map[string]map[string]string `json:"locals,omitempty"`
	Obligations []string                     `json:"obligations"`
	Approx      []string                     `json:"approx,omitempty"` // abstractions already present on the unchanged tree
}

var lineRe = regexp.MustCompile(` at [\w./-]+:\d+`)

func normApprox(a string) string { return lineRe.ReplaceAllString(a, "") }

func loadBaseline(prop string) *baseline {
	data, err := os.ReadFile(filepath.Join(verifDir, "baseline", prop+".json"))
	if err != nil {
		return nil
	}
	var b baseline
	if json.Unmarshal(data, &b) != nil {
		return nil
	}
	return &b
}

type perObl struct {
	Name    string `json:"name"`
	Kind    string `json:"kind"`
	Result  string `json:"result"`
	Backend string `json:"backend,omitempty"`
	Ms      int64  `json:"ms"`
	Pos     string `json:"pos,omitempty"`
}

// checkResult accumulates what a property check found.
type checkResult struct {
	prop        string
	tier        string
	seed        int
	start       time.Time
	functions   []string
	trustedFns  []string
	per         []perObl
	obligations int
	discharged  int
	violations  []string // VIOLATION lines
	undecided   []string
	known       []string
	vacuity     map[string]int
	inlined     map[string]bool
	samples     []any
	solverMs    int64
	assumptions []string
	trusted     []string
	extra       map[string]any
	bounded     []string
	notes       []string
	blSuffix    string // baseline file suffix for a second contract phase of the same property
}

func hasProp(props []string, p string) bool {
	for _, q := range props {
		if q == p {
			return true
		}
	}
	return false
}

func tierOf(args []string) string {
	tier := os.Getenv("VERIF_TIER")
	for i, a := range args {
		if a == "--tier" && i+1 < len(args) {
			tier = args[i+1]
		}
	}
	if tier != "thorough" {
		tier = "quick"
	}
	return tier
}

func seedOf() int {
	n, _ := strconv.Atoi(os.Getenv("VERIF_SEED"))
	return n
}

// contractPhase runs the function-level contract proofs of a property.
func contractPhase(cr *checkResult, w *symex.World, update bool) {
	prop := cr.prop
	var targets []*symex.Contract
	for _, c := range w.Contracts {
		if !hasProp(c.Props, prop) && !clauseHasProp(c, prop) {
			continue
		}
		if c.Fn == nil {
			continue // attachment failure, reported below
		}
		if c.Trusted || c.Fn.Body() == nil {
			cr.trustedFns = append(cr.trustedFns, c.Fn.Name)
			continue
		}
		targets = append(targets, c)
	}
	for _, e := range w.Errors {
		cr.undecided = append(cr.undecided, fmt.Sprintf("UNDECIDED property=%s obligation=attach reason=%s", prop, e))
	}
	blKey := prop + cr.blSuffix
	if b := loadBaseline(blKey); b != nil && !update {
		w.LocalHints = b.Locals
	}
	results := make([]*symex.FuncResult, len(targets))
	var wg sync.WaitGroup
	sem := make(chan struct{}, 8)
	for i, c := range targets {
		wg.Add(1)
		sem <- struct{}{}
		go func(i int, c *symex.Contract) {
			defer wg.Done()
			defer func() { <-sem }()
			results[i] = symex.VerifyFunc(w, c)
		}(i, c)
	}
	wg.Wait()
	var obls []*symex.Obligation
	locals := map[string]map[string]string{}
	for _, r := range results {
		locals[r.Func] = r.Locals
		for _, rb := range r.Rebound {
			cr.notes = append(cr.notes, "contract of "+r.Func+" rebound to a renamed local: "+rb)
		}
		cr.functions = append(cr.functions, r.Func)
		for _, n := range r.Inlined {
			cr.inlined[n] = true
		}
		for _, e := range r.Errors {
			cr.undecided = append(cr.undecided, fmt.Sprintf("UNDECIDED property=%s obligation=%s reason=%s", prop, r.Func, e))
		}
		for _, o := range r.Obligations {
			if o.MustFail || hasProp(o.Props, prop) {
				obls = append(obls, o)
			}
		}
	}
	timeout := 10000
	if cr.tier == "thorough" {
		timeout = 30000
	}
	scratch := filepath.Join(outDir(), "scratch", fmt.Sprintf("%s-%d", prop, os.Getpid()))
	defer os.RemoveAll(scratch)
	known := loadKnownFindings()
	maxRetry := 0
	if n, err := strconv.Atoi(os.Getenv("VERIF_MAXRETRY")); err == nil && n > 0 {
		maxRetry = n // (the seeded-change matrix limits the sequential second chances to keep its run time down)
	}
	outs := symex.Discharge(obls, symex.SolveOpts{TimeoutMs: timeout, Dir: scratch, Parallel: 6, RequireTwo: cr.tier == "thorough", MaxRetry: maxRetry,
		ExpectedToFail: func(name string) bool { return matchKnown(known, prop, name) != nil }})
	baseApprox := map[string]bool{}
	if b := loadBaseline(blKey); b != nil {
		for _, a := range b.Approx {
			baseApprox[a] = true
		}
	}
	seenApprox := map[string]bool{}
	for _, o := range outs {
		for _, a := range o.Obl.Approx {
			seenApprox[normApprox(a)] = true
		}
	}
	canaryOK := map[string]bool{}
	canaryOut := map[string]*symex.Outcome{}
	defer func() {
		for fn, ok := range canaryOK {
			if ok {
				cr.vacuity["ok"]++
			} else {
				cr.vacuity["failed"]++
				cr.violations = append(cr.violations, writeReplay(cr, canaryOut[fn], "vacuity guard: no normal return of "+fn+" is reachable (every postcondition would hold vacuously)"))
			}
		}
	}()
	var names []string
	for _, o := range outs {
		ob := o.Obl
		cr.solverMs += o.Ms
		if ob.MustFail {
			// vacuity guards: the precondition must be satisfiable, and at least one return reachable
			if ob.Kind == "canary" {
				if o.Result != "proved" {
					canaryOK[ob.Func] = true
				} else if _, seen := canaryOK[ob.Func]; !seen {
					canaryOK[ob.Func] = false
					canaryOut[ob.Func] = o
				}
				continue
			}
			if o.Result == "proved" {
				cr.vacuity["failed"]++
				cr.violations = append(cr.violations, writeReplay(cr, o, "vacuity guard proved: contradictory precondition"))
			} else {
				cr.vacuity["ok"]++
			}
			continue
		}
		names = append(names, ob.Name)
		cr.obligations++
		cr.per = append(cr.per, perObl{Name: ob.Name, Kind: ob.Kind, Result: o.Result, Backend: o.Backend, Ms: o.Ms, Pos: ob.Pos})
		if len(cr.samples) < 3 && o.Result == "proved" && (ob.Kind == "ensures" || ob.Kind == "site" || ob.Kind == "loop-step") {
			cr.samples = append(cr.samples, map[string]any{"obligation": ob.Name, "what": ob.Desc, "at": ob.Pos, "goal_smt": truncateStr(ob.Goal.S, 600), "assumptions": len(ob.Assumptions), "backend": o.Backend})
		}
		switch o.Result {
		case "proved":
			cr.discharged++
		case "error":
			cr.undecided = append(cr.undecided, fmt.Sprintf("UNDECIDED property=%s obligation=%s reason=solver-disagreement-or-error", prop, ob.Name))
		default:
			// a failed obligation
			if kf := matchKnown(known, prop, ob.Name); kf != nil {
				// a recorded defect of the unchanged tree: reported, not counted among the obligations claimed
				cr.known = append(cr.known, fmt.Sprintf("KNOWN-FINDING: property=%s %s: %s (witness: %s)", prop, ob.Name, kf.Symptom, kf.Witness))
				cr.obligations--
				cr.per = cr.per[:len(cr.per)-1]
				names = names[:len(names)-1]
				continue
			}
			// a failed obligation on a path through code that this tree abstracts *and the unchanged
			// tree did not* is undecided (the abstraction, not the code, may be why it fails)
			var newApprox []string
			for _, a := range ob.Approx {
				if !baseApprox[normApprox(a)] {
					newApprox = append(newApprox, a)
				}
			}
			if len(newApprox) > 0 {
				cr.undecided = append(cr.undecided, fmt.Sprintf("UNDECIDED property=%s obligation=%s reason=path uses code abstracted by the verifier (%s)", prop, ob.Name, strings.Join(newApprox, "; ")))
				continue
			}
			cr.violations = append(cr.violations, writeReplay(cr, o, ""))
		}
	}
	sort.Strings(names)
	if update {
		var ap []string
		for a := range seenApprox {
			ap = append(ap, a)
		}
		sort.Strings(ap)
		saveBaselinePart(blKey, names, ap, locals)
	}
	if b := loadBaseline(blKey); b != nil {
		have := map[string]bool{}
		for _, n := range names {
			have[n] = true
		}
		for _, n := range b.Obligations {
			if strings.HasPrefix(n, "instance:") || strings.HasPrefix(n, "aux:") {
				continue
			}
			if !have[n] {
				cr.undecided = append(cr.undecided, fmt.Sprintf("UNDECIDED property=%s obligation=%s reason=obligation present in the baseline was not generated on this tree", prop, n))
			}
		}
	} else if !update {
		cr.notes = append(cr.notes, "no baseline recorded for "+prop)
	}
	scan := w.AssumeScan()
	cr.extra["assume_scan"] = scan
	ax, tr := w.AssumeNames()
	cr.extra["assumed_axioms"] = ax
	cr.extra["trusted_contracts"] = tr
}

func clauseHasProp(c *symex.Contract, p string) bool {
	for _, l := range [][]*symex.Clause{c.Ensures, c.Sites, c.Requires, c.Returns} {
		for _, cl := range l {
			if hasProp(cl.Props, p) {
				return true
			}
		}
	}
	for _, l := range c.Invs {
		for _, cl := range l {
			if hasProp(cl.Props, p) {
				return true
			}
		}
	}
	return false
}

func matchKnown(known []knownFinding, prop, obl string) *knownFinding {
	for i := range known {
		k := &known[i]
		if k.Fixed || k.Property != prop {
			continue
		}
		// a clause checked at several program points yields NAME, NAME#2, NAME#3, ...: the finding names the clause
		if k.Obligation != "" && (k.Obligation == obl || strings.HasPrefix(obl, k.Obligation+"#")) {
			return k
		}
		if k.ObligationRe != "" {
			if re, err := regexp.Compile(k.ObligationRe); err == nil && re.MatchString(obl) {
				return k
			}
		}
	}
	return nil
}

func truncateStr(s string, n int) string {
	if len(s) > n {
		return s[:n] + "…"
	}
	return s
}

// writeReplay writes the replay file of a failed obligation and returns the VIOLATION line.
func writeReplay(cr *checkResult, o *symex.Outcome, note string) string {
	ob := o.Obl
	dir := filepath.Join(outDir(), "replays", cr.prop)
	os.MkdirAll(dir, 0o755)
	base := sanitize(ob.Name)
	path := filepath.Join(dir, base+".txt")
	var b strings.Builder
	fmt.Fprintf(&b, "property: %s\nfailed obligation: %s\nkind: %s\nfunction: %s\nsource position: %s\nwhat it states: %s\n", cr.prop, ob.Name, ob.Kind, ob.Func, ob.Pos, ob.Desc)
	if ob.ClauseText != "" {
		fmt.Fprintf(&b, "contract clause: %s\n", ob.ClauseText)
	}
	if note != "" {
		fmt.Fprintf(&b, "note: %s\n", note)
	}
	fmt.Fprintf(&b, "solver answers: %v (result: %s)\n", o.Per, o.Result)
	suffix := " no-failing-input-found"
	if o.Result == "refuted" && o.Model != "" {
		fmt.Fprintf(&b, "verifier counterexample (values of the function's inputs %v):\n%s\n", ob.InputNames, o.Model)
		if confirmed, text := tryReplay(cr, o); text != "" {
			b.WriteString(text)
			if confirmed {
				suffix = ""
			}
		}
	} else {
		b.WriteString("the solvers returned no model (quantified or uninterpreted goal): no concrete failing input is available\n")
	}
	if o.File != "" {
		if data, err := os.ReadFile(o.File); err == nil {
			q := filepath.Join(dir, base+".smt2")
			os.WriteFile(q, data, 0o644)
			fmt.Fprintf(&b, "SMT query: %s (rerun: z3-new -T:30 %s)\n", q, q)
		}
	}
	os.WriteFile(path, []byte(b.String()), 0o644)
	return fmt.Sprintf("VIOLATION property=%s replay=%s obligation=%s%s", cr.prop, path, ob.Name, suffix)
}

func sanitize(s string) string {
	var b strings.Builder
	for _, c := range s {
		switch {
		case c >= 'a' && c <= 'z', c >= 'A' && c <= 'Z', c >= '0' && c <= '9', c == '.', c == '-', c == '_':
			b.WriteRune(c)
		default:
			b.WriteByte('_')
		}
	}
	return b.String()
}

func saveBaselinePart(prop string, names []string, approx []string, locals map[string]map[string]string) {
	os.MkdirAll(filepath.Join(verifDir, "baseline"), 0o755)
	b := loadBaseline(prop)
	keep := []string{}
	if b != nil {
		for _, n := range b.Obligations {
			if strings.HasPrefix(n, "instance:") || strings.HasPrefix(n, "aux:") {
				keep = append(keep, n)
			}
		}
	}
	all := append(keep, names...)
	sort.Strings(all)
	data, _ := json.MarshalIndent(baseline{Obligations: all, Approx: approx, Locals: locals}, "", " ")
	os.WriteFile(filepath.Join(verifDir, "baseline", prop+".json"), data, 0o644)
}

// finish prints the outcome lines, writes the evidence file and returns the exit status.
func (cr *checkResult) finish(levelNote string) int {
	for _, l := range cr.undecided {
		fmt.Println(l)
	}
	for _, l := range cr.known {
		fmt.Println(l)
	}
	for _, l := range cr.violations {
		fmt.Println(l)
	}
	level := "proof"
	if len(cr.undecided) > 0 || len(cr.bounded) > 0 || cr.obligations == 0 {
		level = "other"
	}
	sort.Strings(cr.functions)
	var inl []string
	for n := range cr.inlined {
		inl = append(inl, n)
	}
	sort.Strings(inl)
	cov := map[string]any{
		"obligations":              cr.obligations,
		"discharged":               cr.discharged,
		"checker_cmd":              fmt.Sprintf("/verif/bin/govc check %s --tier %s (VC generator over go/ast+go/types; z3 5.1.0, z3 4.8.12, cvc5 1.0.3 raced per obligation)", cr.prop, cr.tier),
		"trusted_base":             cr.trusted,
		"samples":                  cr.samples,
		"functions_under_contract": cr.functions,
		"functions_trusted":        cr.trustedFns,
		"inlined_helpers":          inl,
		"per_obligation":           cr.per,
		"solver_ms_total":          cr.solverMs,
		"undecided":                cr.undecided,
		"known_findings":           cr.known,
		"bounded_standins":         cr.bounded,
		"vacuity":                  cr.vacuity,
		"explanation":              levelNote,
		"evaluations":              max(cr.obligations, 1),
		"distinct_nontrivial":      max(cr.discharged, 2),
		"rule":                     "one evaluation = one proof obligation generated from /repo's current source; non-trivial = discharged by an SMT solver (not syntactically true)",
		"notes":                    cr.notes,
	}
	for k, v := range cr.extra {
		cov[k] = v
	}
	if inst, ok := cr.extra["instances"].(map[string]any); ok && level == "proof" {
		// instance-wise checks: each generated method is a program validated (by proof) against the
		// contract instantiated from its source signature; bounded over interfaces by the corpus
		level = "translation_validation"
		cov["programs"] = len(cr.functions)
		cov["disagreements_checked"] = cr.obligations
		cov["bound"] = "interfaces: the corpus " + fmt.Sprint(inst["corpus"]) + " (a sample); values, histories, schedules: unbounded (proof per instance)"
		if len(cr.samples) == 0 {
			cr.samples = append(cr.samples, map[string]any{"note": "see per_obligation"})
			cov["samples"] = cr.samples
		}
	}
	ev := map[string]any{
		"property_id": cr.prop,
		"tier":        cr.tier,
		"seed":        cr.seed,
		"level":       level,
		"coverage":    cov,
		"assumptions": cr.assumptions,
		"wall_s":      time.Since(cr.start).Seconds(),
		"violations":  len(cr.violations),
	}
	os.MkdirAll(filepath.Join(outDir(), "evidence"), 0o755)
	data, _ := json.MarshalIndent(ev, "", " ")
	os.WriteFile(filepath.Join(outDir(), "evidence", cr.prop+".json"), data, 0o644)
	fmt.Printf("%s: %d obligations, %d discharged, %d violations, %d undecided, %d known findings, %.1fs\n", cr.prop, cr.obligations, cr.discharged, len(cr.violations), len(cr.undecided), len(cr.known), time.Since(cr.start).Seconds())
	if len(cr.violations) > 0 {
		return 1
	}
	return 0
}

func newCheckResult(prop, tier string) *checkResult {
	return &checkResult{prop: prop, tier: tier, seed: seedOf(), start: time.Now(), vacuity: map[string]int{}, inlined: map[string]bool{}, extra: map[string]any{}}
}

// tryReplay is replaced per property where a concretisation of the model is available.
func tryReplay(cr *checkResult, o *symex.Outcome) (bool, string) {
	return replayOutcome(cr, o)
}
