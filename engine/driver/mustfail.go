package driver

// Must-fail corpus (DESIGN.md 4.7), run by the thorough tier: the check is re-run on scratch copies of
// the working tree in which (a) a repaired defect of this property is re-introduced (reverse patch of its
// "fix:" commit) and (b) a seeded change that this check is recorded to catch (/verif/seeded/expected.json,
// written by tools/seeded_matrix.sh) is applied. Every one of them must be reported as a violation.
// A miss says nothing about the tree; it says the check has a hole, and is reported as UNDECIDED.

import (
	"encoding/json"
	"fmt"
	"os"
	"os/exec"
	"path/filepath"
	"strings"
)

type mustFailResult struct {
	What     string `json:"what"`
	Applies  bool   `json:"patch_applies"`
	Detected bool   `json:"detected"`
	Line     string `json:"violation_line,omitempty"`
}

func copyTree(dst string) error {
	cmd := exec.Command("rsync", "-a", "--exclude", ".git", repoDir()+"/", dst+"/")
	if out, err := cmd.CombinedOutput(); err != nil {
		return fmt.Errorf("%v: %s", err, out)
	}
	return nil
}

func mustFailPhase(cr *checkResult) {
	if os.Getenv("VERIF_NO_MUSTFAIL") != "" {
		return
	}
	type item struct {
		what  string
		patch []byte
		rev   bool
	}
	var items []item
	for _, k := range loadKnownFindings() {
		if !k.Fixed || k.Property != cr.prop || k.Commit == "" {
			continue
		}
		out, err := exec.Command("git", "-C", "/repo", "show", "--format=", k.Commit, "--", ".", ":(exclude)*zz_verif_contracts.go").Output()
		if err != nil || len(out) == 0 {
			continue
		}
		items = append(items, item{"reverse of fix " + k.Commit, out, true})
	}
	if data, err := os.ReadFile(filepath.Join(verifDir, "seeded", "expected.json")); err == nil {
		exp := map[string][]string{}
		if json.Unmarshal(data, &exp) == nil {
			var ids []string
			for id := range exp {
				ids = append(ids, id)
			}
			sortStrings(ids)
			for _, id := range ids {
				if !hasProp(exp[id], cr.prop) {
					continue
				}
				if patch, err := os.ReadFile(filepath.Join(verifDir, "seeded", id, "patch.diff")); err == nil {
					items = append(items, item{"seeded change " + id, patch, false})
				}
			}
		}
	}
	if len(items) == 0 {
		return
	}
	base := os.Getenv("VERIF_SCRATCH")
	if base == "" {
		base = "/var/tmp"
	}
	self, _ := os.Executable()
	var results []mustFailResult
	for _, it := range items {
		dir, err := os.MkdirTemp(base, "govc-mustfail-")
		if err != nil {
			continue
		}
		func() {
			defer os.RemoveAll(dir)
			tree := filepath.Join(dir, "tree")
			os.MkdirAll(tree, 0o755)
			if err := copyTree(tree); err != nil {
				cr.notes = append(cr.notes, "must-fail: cannot copy the tree: "+err.Error())
				return
			}
			pf := filepath.Join(dir, "p.diff")
			os.WriteFile(pf, it.patch, 0o644)
			args := []string{"apply"}
			if it.rev {
				args = append(args, "-R")
			}
			args = append(args, pf)
			ap := exec.Command("git", args...)
			ap.Dir = tree
			res := mustFailResult{What: it.what}
			if out, err := ap.CombinedOutput(); err != nil {
				_ = out
				results = append(results, res) // the tree moved on: the patch no longer applies (reported, not an alarm)
				return
			}
			res.Applies = true
			run := exec.Command(self, "check", cr.prop, "--tier", "quick")
			run.Env = append(os.Environ(), "VERIF_REPO="+tree, "VERIF_OUT="+filepath.Join(dir, "out"), "VERIF_NO_MUSTFAIL=1")
			out, _ := run.CombinedOutput()
			undecided := false
			for _, ln := range strings.Split(string(out), "\n") {
				if strings.HasPrefix(ln, "VIOLATION") && !res.Detected {
					res.Detected = true
					res.Line = truncateStr(ln, 300)
				}
				if strings.HasPrefix(ln, "UNDECIDED") {
					undecided = true
				}
			}
			if !res.Detected && undecided {
				res.Line = "UNDECIDED on the changed tree (e.g. the change alters a signature the contracts mention)"
			}
			results = append(results, res)
			if !res.Detected && !undecided {
				cr.undecided = append(cr.undecided, fmt.Sprintf("UNDECIDED property=%s obligation=must-fail reason=%s is not reported by this check (a hole in the check, not a statement about the tree)", cr.prop, it.what))
			}
		}()
	}
	cr.extra["must_fail"] = results
}

func sortStrings(xs []string) {
	for i := 1; i < len(xs); i++ {
		for j := i; j > 0 && xs[j] < xs[j-1]; j-- {
			xs[j], xs[j-1] = xs[j-1], xs[j]
		}
	}
}
