package driver

import (
	"fmt"
	"os"
	"strings"

	"verif/engine/symex"
)

var allPatterns = []string{"./template", "./template_funcs", "./config", "./internal", "./internal/cmd", "./tools/cmd"}

func repoDir() string {
	if d := os.Getenv("VERIF_REPO"); d != "" {
		return d
	}
	return "/repo"
}

// debugCmd: govc debug <substring of function name> : verify matching contracts verbosely.
func debugCmd(args []string) int {
	pats := allPatterns
	if p := os.Getenv("VERIF_PATTERNS"); p != "" {
		pats = strings.Fields(p)
	}
	w, err := symex.Load(repoDir(), pats, nil)
	if err != nil {
		fmt.Println("load error:", err)
		return 2
	}
	for _, e := range w.Errors {
		fmt.Println("ATTACH:", e)
	}
	pat := ""
	if len(args) > 0 {
		pat = args[0]
	}
	for _, c := range w.Contracts {
		if c.Fn == nil || c.Trusted {
			continue
		}
		if !strings.Contains(c.Fn.Name, pat) {
			continue
		}
		if c.Binding != "" || c.Fn.Body() == nil {
			continue
		}
		res := symex.VerifyFunc(w, c)
		fmt.Printf("== %s: %d obligations, errors=%v inlined=%v\n", res.Func, len(res.Obligations), res.Errors, res.Inlined)
		outs := symex.Discharge(res.Obligations, symex.SolveOpts{TimeoutMs: 5000, Dir: "/verif/scratch/debug", KeepQueries: os.Getenv("KEEP") != ""})
		for _, o := range outs {
			mark := o.Result
			if o.Obl.MustFail {
				if o.Result == "proved" {
					mark = "VACUOUS!"
				} else {
					mark = "ok(canary " + o.Result + ")"
				}
			}
			fmt.Printf("   %-70s %-22s %-7s %5dms %v %s\n", o.Obl.Name, mark, o.Backend, o.Ms, o.Per, o.File)
			if o.Result == "refuted" && !o.Obl.MustFail {
				fmt.Printf("      model: %s\n", strings.ReplaceAll(o.Model, "\n", " "))
			}
		}
	}
	return 0
}
