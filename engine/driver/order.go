package driver

// Property C06 (DESIGN.md 6 C06): what of "generation is deterministic and idempotent" is within reach.
//
//  1. orderPhase      every map-range loop of the generation path is order-independent by the
//                     iteration-footprint separation rule (symex/order.go), and no function of the
//                     generation path uses a clock, a random source, the process identity, a temporary
//                     name, an unordered collection API or a goroutine.
//  2. noIfacePhase    instance-wise: no file generated from the corpus declares a package-level interface
//                     type, so a second run over a tree that contains the first run's output finds nothing
//                     new to mock (decided by go/types on the generated packages).
//  3. repeatPhase     bounded stand-in, never counted as proved: the real binary is run k times on the
//                     determinism corpus and once more over its own output; all runs must write the same
//                     files with the same bytes.

import (
	"crypto/sha256"
	"fmt"
	"go/types"
	"os"
	"path/filepath"
	"sort"
	"strings"

	"verif/engine/symex"
)

const orderCanary = `//go:build verif

package config

import (
	"context"
	"sort"
	"time"

	"github.com/rs/zerolog"
)

func verifCanaryOrderFirstWins(m map[string]int) (string, error) {
	for k := range m {
		return k, nil
	}
	return "", nil
}

func verifCanaryOrderUnsorted(m map[string]int) []string {
	var out []string
	for k := range m {
		out = append(out, k)
	}
	return out
}

func verifCanaryOrderShared(m map[string]*int, total *[]string) {
	for k := range m {
		*total = append(*total, k)
	}
}

func verifCanaryOrderLast(m map[string]int) (last string) {
	for k := range m {
		last = k
	}
	return
}

func verifCanaryOrderCross(m map[string]*int) {
	for k, v := range m {
		if o, ok := m["x"]; ok {
			*v = *o + len(k)
		}
	}
}

type verifCanaryReg struct{ names map[string]int }

func (r *verifCanaryReg) add(n string) { r.names[n] = len(r.names) }

func verifCanaryOrderCallee(m map[string]int, r *verifCanaryReg) {
	for k := range m {
		r.add(k)
	}
}

func verifCanaryOrderSorted(m map[string]int) []string {
	var out []string
	for k := range m {
		out = append(out, k)
	}
	sort.Strings(out)
	return out
}

func verifCanaryOrderKeyed(m map[string]int, d map[string]int) int {
	n := 0
	for k, v := range m {
		d[k] = v
		n++
	}
	return n
}

type verifCanaryItem struct{ Name string }

func verifCanaryOrderExists(m map[string]verifCanaryItem, name string) bool {
	for _, it := range m {
		if it.Name == name {
			return true
		}
	}
	return false
}

func verifCanaryOrderFoundBreak(m map[string]verifCanaryItem, name string) (found bool) {
	for _, it := range m {
		if it.Name == name {
			found = true
			break
		}
	}
	return found
}

func verifCanaryOrderCountBreak(m map[string]verifCanaryItem, name string) (n int) {
	for _, it := range m {
		n++
		if it.Name == name {
			break
		}
	}
	return n
}

func verifCanaryOrderConstSet(m map[string]verifCanaryItem, seen map[string]bool) {
	for _, it := range m {
		seen[it.Name] = true
	}
}

func verifCanaryOrderConstSetRead(m map[string]verifCanaryItem, seen map[string]bool) (dups int) {
	for _, it := range m {
		if seen[it.Name] {
			dups++
		}
		seen[it.Name] = true
	}
	return dups
}

func verifCanaryOrderIndexBy(m map[string]verifCanaryItem, byName map[string]verifCanaryItem) {
	for _, it := range m {
		byName[it.Name] = it
	}
}

func verifCanaryClock() int64 { return time.Now().Unix() }

func verifCanaryClockLogged(ctx context.Context) {
	start := time.Now()
	zerolog.Ctx(ctx).Debug().Dur("took", time.Since(start)).Msg("done")
}

func verifCanaryClockLeaks(ctx context.Context) int64 {
	start := time.Now()
	zerolog.Ctx(ctx).Debug().Time("at", start).Msg("started")
	return start.Unix()
}
`

// canaries that the rule must reject (true) or accept (false)
var orderCanaryExpect = map[string]bool{
	"config.verifCanaryOrderFirstWins/maprange#0/order-independent":    true,
	"config.verifCanaryOrderUnsorted/maprange#0/order-independent":     true,
	"config.verifCanaryOrderShared/maprange#0/order-independent":       true,
	"config.verifCanaryOrderLast/maprange#0/order-independent":         true,
	"config.verifCanaryOrderCross/maprange#0/order-independent":        true,
	"config.verifCanaryOrderCallee/maprange#0/order-independent":       true,
	"config.verifCanaryClock/effects#deterministic-sources":            true,
	"config.verifCanaryClockLeaks/effects#deterministic-sources":       true,
	"config.verifCanaryClockLogged/effects#deterministic-sources":      false,
	"config.verifCanaryOrderSorted/maprange#0/order-independent":       false,
	"config.verifCanaryOrderKeyed/maprange#0/order-independent":        false,
	"config.verifCanaryOrderConstSet/maprange#0/order-independent":     false,
	"config.verifCanaryOrderConstSetRead/maprange#0/order-independent": true,
	"config.verifCanaryOrderIndexBy/maprange#0/order-independent":      true,
	"config.verifCanaryOrderExists/maprange#0/order-independent":       false,
	"config.verifCanaryOrderFoundBreak/maprange#0/order-independent":   false,
	"config.verifCanaryOrderCountBreak/maprange#0/order-independent":   true,
}

func c06Check(cr *checkResult, update bool) {
	overlay := map[string][]byte{filepath.Join(repoDir(), "config", "zz_verif_canary_order.go"): []byte(orderCanary)}
	w, err := symex.Load(repoDir(), []string{"./template", "./template_funcs", "./config", "./internal", "./internal/cmd"}, overlay)
	if err != nil {
		fmt.Printf("UNDECIDED property=%s obligation=load reason=%v\n", cr.prop, err)
		cr.undecided = append(cr.undecided, "load: "+err.Error())
		return
	}
	cr.extra["checker_cmd"] = fmt.Sprintf("/verif/bin/govc check %s --tier %s (iteration-footprint rule over go/ast+go/types, go/types on generated instances, repeat runs of the binary built from the tree; no SMT queries)", cr.prop, cr.tier)
	cr.extra["rule"] = "one evaluation = one obligation generated from /repo's current source: one map-range loop, one function's sources, or one generated file; assumed loops and the bounded repeat runs are not counted"
	orderPhase(cr, w)
	for _, e := range w.Errors {
		cr.undecided = append(cr.undecided, fmt.Sprintf("UNDECIDED property=%s obligation=attach reason=%s", cr.prop, e))
	}
	noIfacePhase(cr)
}

func orderPhase(cr *checkResult, w *symex.World) {
	known := loadKnownFindings()
	results := w.OrderCheck(orderScope)
	var assumedLoops []map[string]string
	var exceptedLoops []map[string]any
	assumes := map[string]bool{}
	fnSeen := map[string]bool{}
	seenCanary := map[string]bool{}
	nLoops := 0
	for _, r := range results {
		if strings.Contains(r.Name, "verifCanary") {
			want, listed := orderCanaryExpect[r.Name]
			if !listed {
				continue
			}
			seenCanary[r.Name] = true
			if want == r.OK {
				cr.vacuity["failed"]++
				cr.undecided = append(cr.undecided, fmt.Sprintf("UNDECIDED property=%s obligation=%s reason=self-test of the order rule failed (expected rejected=%v): the rule is not trustworthy on this run", cr.prop, r.Name, want))
			} else {
				cr.vacuity["ok"]++
			}
			continue
		}
		if !fnSeen[r.Func] {
			fnSeen[r.Func] = true
			cr.functions = append(cr.functions, r.Func)
		}
		if r.Assumed != "" {
			assumedLoops = append(assumedLoops, map[string]string{"loop": r.Name, "at": r.Pos, "assumed_because": r.Assumed})
			continue
		}
		if r.Kind == "maprange" {
			nLoops++
		}
		for _, s := range r.Assumes {
			assumes[s] = true
		}
		if r.Excepted != nil {
			e := map[string]any{"loop": r.Name, "at": r.Pos}
			for k, v := range r.Excepted {
				e[k] = v
			}
			exceptedLoops = append(exceptedLoops, e)
			cr.assumptions = append(cr.assumptions, fmt.Sprintf("PARTLY CHECKED: %s is checked except for what its calls of %v do to state shared by the iterations (%v)", r.Name, r.Excepted["calls"], r.Excepted["reason"]))
		}
		if r.OK {
			cr.obligations++
			cr.discharged++
			cr.per = append(cr.per, perObl{Name: r.Name, Kind: r.Kind, Result: "proved", Backend: "footprint rule over the typed AST", Pos: r.Pos})
			if r.Kind == "maprange" && len(cr.samples) < 4 {
				cr.samples = append(cr.samples, map[string]any{"obligation": r.Name, "at": r.Pos, "why_order_independent": r.Class, "under": r.Assumes})
			}
			continue
		}
		if kf := matchKnown(known, cr.prop, r.Name); kf != nil {
			cr.known = append(cr.known, fmt.Sprintf("KNOWN-FINDING: property=%s %s: %s (witness: %s)", cr.prop, r.Name, kf.Symptom, kf.Witness))
			continue
		}
		cr.obligations++
		cr.per = append(cr.per, perObl{Name: r.Name, Kind: r.Kind, Result: "failed", Backend: "footprint rule over the typed AST", Pos: r.Pos})
		dir := filepath.Join(outDir(), "replays", cr.prop)
		os.MkdirAll(dir, 0o755)
		path := filepath.Join(dir, sanitize(r.Name)+".txt")
		what := "the iterations of this range over a map commute (the result does not depend on Go's randomised map iteration order)"
		if r.Kind == "sources" {
			what = "the function uses no clock, random source, process identity, temporary name, unordered collection API or goroutine"
		}
		os.WriteFile(path, []byte(fmt.Sprintf("property: %s\nfailed obligation: %s\nkind: %s\nfunction: %s\nsource position: %s\nwhat it states: %s\nverifier output (iteration-footprint separation rule, symex/order.go):\n  %s\nno concrete failing input is available: the rule is a sufficient condition; an order dependence shows only across runs with different map iteration orders\n", cr.prop, r.Name, r.Kind, r.Func, r.Pos, what, strings.ReplaceAll(r.Reason, "; ", "\n  "))), 0o644)
		cr.violations = append(cr.violations, fmt.Sprintf("VIOLATION property=%s replay=%s obligation=%s no-failing-input-found", cr.prop, path, r.Name))
	}
	for n := range orderCanaryExpect {
		if !seenCanary[n] {
			cr.vacuity["failed"]++
			cr.undecided = append(cr.undecided, fmt.Sprintf("UNDECIDED property=%s obligation=%s reason=self-test function of the order rule was not analysed", cr.prop, n))
		}
	}
	if nLoops == 0 {
		cr.notes = append(cr.notes, "no map-range loop on the generation path was checked on this tree")
	}
	var as []string
	for s := range assumes {
		as = append(as, s)
	}
	sort.Strings(as)
	cr.extra["order_rule_assumptions"] = as
	cr.extra["order_assumed_loops"] = assumedLoops
	cr.extra["order_partly_assumed_loops"] = exceptedLoops
	cr.assumptions = append(cr.assumptions, as...)
	for _, l := range assumedLoops {
		cr.assumptions = append(cr.assumptions, "NOT CHECKED, assumed order-independent: "+l["loop"]+" ("+l["assumed_because"]+")")
	}
}

// noIfacePhase: instance-wise, decided by go/types.
func noIfacePhase(cr *checkResult) {
	env, err := newInstEnv()
	if env != nil {
		defer env.close()
	}
	if err != nil {
		cr.undecided = append(cr.undecided, fmt.Sprintf("UNDECIDED property=%s obligation=build reason=%s", cr.prop, strings.ReplaceAll(err.Error(), "\n", " | ")))
		return
	}
	variants := []instVariant{
		{pkg: "m", template: "matryer", templateData: "{skip-ensure: false, with-resets: true}"},
		{pkg: "ms", template: "matryer", templateData: "{skip-ensure: true, stub-impl: true}"},
		{pkg: "t", template: "testify", templateData: "{unroll-variadic: true}"},
		{pkg: "tn", template: "testify", templateData: "{unroll-variadic: false}"},
		{pkg: "to", template: "testify", templateData: "{unroll-variadic: true}", outOfPkg: true},
		{pkg: "mo", template: "matryer", templateData: "{skip-ensure: false}", outOfPkg: true},
	}
	root, err := env.generate(variants)
	if err == nil {
		{
			all, e3 := loadTypesAll(root, variants)
			if e3 != nil {
				err = e3
			} else {
				for _, p := range all {
					for _, f := range p.Syntax {
						file := p.Fset.Position(f.Pos()).Filename
						if !strings.HasSuffix(file, "mocks_gen.go") {
							continue
						}
						rel, _ := filepath.Rel(root, file)
						name := "instances/no-interface-declared/" + rel
						var offenders []string
						scope := p.Types.Scope()
						for _, n := range scope.Names() {
							tn, ok := scope.Lookup(n).(*types.TypeName)
							if !ok || p.Fset.Position(tn.Pos()).Filename != file {
								continue
							}
							if types.IsInterface(tn.Type()) {
								offenders = append(offenders, n)
							}
						}
						cr.obligations++
						if len(offenders) == 0 {
							cr.discharged++
							cr.per = append(cr.per, perObl{Name: name, Kind: "no-interface-declared", Result: "proved", Backend: "go/types"})
							continue
						}
						cr.per = append(cr.per, perObl{Name: name, Kind: "no-interface-declared", Result: "refuted", Backend: "go/types"})
						dir := filepath.Join(outDir(), "replays", cr.prop)
						os.MkdirAll(dir, 0o755)
						path := filepath.Join(dir, sanitize(name)+".txt")
						os.WriteFile(path, []byte(fmt.Sprintf("property: %s\nfailed obligation: %s (decided by go/types on the generated instance)\nthe generated file declares package-level interface type(s) %v: a second run of mockery over a tree that contains this file (all: true, or a matching include-interface-regex) finds them and generates mocks of mocks\nfailing input: /verif/corpus/m/ifaces.go mocked with 'all: true'; replay: build mockery from the tree, generate, and run it a second time with force-file-write: the set of generated types grows\n", cr.prop, name, offenders)), 0o644)
						cr.violations = append(cr.violations, fmt.Sprintf("VIOLATION property=%s replay=%s obligation=%s", cr.prop, path, name))
					}
				}
			}
		}
	}
	if err != nil {
		cr.undecided = append(cr.undecided, fmt.Sprintf("UNDECIDED property=%s obligation=instances reason=the corpus could not be generated or does not type-check (reported by C01/C03/C04): %s", cr.prop, strings.ReplaceAll(tail(err.Error(), 300), "\n", " | ")))
	}
	repeatPhase(cr, env)
}

// repeatPhase: bounded stand-in (k runs of the real binary; not a proof, not counted).
func repeatPhase(cr *checkResult, env *instEnv) {
	k := 3
	if cr.tier == "thorough" {
		k = 10
	}
	variants := []instVariant{
		{pkg: "d", template: "testify", templateData: "{unroll-variadic: true}", source: "d/ifaces.go", srcPkg: "d", extraDirs: []string{"dq"}, moreSources: []string{"d/zz_more.go"}},
		{pkg: "dm", template: "matryer", templateData: "{skip-ensure: true}", source: "d/ifaces.go", srcPkg: "d", extraDirs: []string{"dq"}, moreSources: []string{"d/zz_more.go"}},
		// one output file per interface: several files share one source package and one output package
		{pkg: "df", template: "testify", templateData: "{unroll-variadic: true}", source: "d/ifaces.go", srcPkg: "d", extraDirs: []string{"dq"}, moreSources: []string{"d/zz_more.go"}, filename: "mock_{{.InterfaceName}}_gen.go"},
		{pkg: "t", template: "testify", templateData: "{unroll-variadic: false}"},
		{pkg: "mf", template: "matryer", templateData: "{skip-ensure: false}", filename: "moq_{{.InterfaceName}}_gen.go"},
		{pkg: "mo", template: "matryer", templateData: "{skip-ensure: false}", outOfPkg: true},
	}
	hashTree := func(root string) (map[string]string, error) {
		out := map[string]string{}
		err := filepath.Walk(root, func(p string, fi os.FileInfo, err error) error {
			if err != nil || fi.IsDir() {
				return err
			}
			data, e := os.ReadFile(p)
			if e != nil {
				return e
			}
			rel, _ := filepath.Rel(root, p)
			if rel == "go.mod" || rel == "go.sum" {
				return nil // rewritten by the go tool under -mod=mod when the generated code imports testify, not by mockery
			}
			out[rel] = fmt.Sprintf("%x", sha256.Sum256(data))
			return nil
		})
		return out, err
	}
	diff := func(a, b map[string]string) []string {
		var d []string
		for f, h := range a {
			if b[f] != h {
				d = append(d, f)
			}
		}
		for f := range b {
			if _, ok := a[f]; !ok {
				d = append(d, f)
			}
		}
		sort.Strings(d)
		return d
	}
	res := map[string]any{"bound": fmt.Sprintf("%d runs of the binary built from the tree over the determinism corpus (/verif/corpus/d: six same-named packages in one signature, a source file sorting after the generated one, one-file-per-package and one-file-per-interface layouts; plus the main corpus in three layouts), and one further run over the tree that already contains the output; NOT a proof, not counted among the obligations", k)}
	cr.bounded = append(cr.bounded, "C06 repeat runs: "+res["bound"].(string))
	var first map[string]string
	var firstRoot string
	fail := func(name, text string) {
		dir := filepath.Join(outDir(), "replays", cr.prop)
		os.MkdirAll(dir, 0o755)
		path := filepath.Join(dir, sanitize(name)+".txt")
		os.WriteFile(path, []byte(fmt.Sprintf("property: %s\nfailed obligation: %s (bounded stand-in: repeated runs of the real binary)\n%s\nreplay: build mockery from the tree; copy /verif/corpus/{d,dq,m} into a scratch module as the check does (driver/order.go repeatPhase); run mockery repeatedly and compare the trees\n", cr.prop, name, text)), 0o644)
		cr.violations = append(cr.violations, fmt.Sprintf("VIOLATION property=%s replay=%s obligation=%s", cr.prop, path, name))
	}
	for i := 0; i < k; i++ {
		root, err := env.generate(variants)
		if err != nil {
			cr.undecided = append(cr.undecided, fmt.Sprintf("UNDECIDED property=%s obligation=instances/repeat reason=mockery fails on the determinism corpus: %s", cr.prop, strings.ReplaceAll(tail(err.Error(), 300), "\n", " | ")))
			res["result"] = "undecided"
			cr.extra["bounded_standin_repeat_runs"] = res
			return
		}
		h, err := hashTree(root)
		if err != nil {
			return
		}
		if first == nil {
			first, firstRoot = h, root
			continue
		}
		if d := diff(first, h); len(d) > 0 {
			fail("instances/repeat/same-output", fmt.Sprintf("run 1 and run %d of the same binary on the same inputs differ in: %v", i+1, d))
			res["result"] = "runs differ"
			cr.extra["bounded_standin_repeat_runs"] = res
			return
		}
	}
	// once more over the tree that contains the output
	if err := env.rerun(firstRoot); err != nil {
		cr.undecided = append(cr.undecided, fmt.Sprintf("UNDECIDED property=%s obligation=instances/rerun reason=mockery fails when run over its own output: %s", cr.prop, strings.ReplaceAll(tail(err.Error(), 300), "\n", " | ")))
		res["result"] = "undecided"
	} else if h, err := hashTree(firstRoot); err == nil {
		if d := diff(first, h); len(d) > 0 {
			fail("instances/rerun/idempotent", fmt.Sprintf("running mockery again over the tree that contains its own output changed or added: %v", d))
			res["result"] = "second run differs"
		} else {
			res["result"] = "identical"
		}
	}
	cr.extra["bounded_standin_repeat_runs"] = res
}
