package driver

// Property C17 (DESIGN.md 6 C17): the header of the two built-in templates.
//
//  1. headerPhase   the header of each built-in template (everything before the package clause) is
//                   executed symbolically: the template text is parsed with text/template/parse (the
//                   parser mockery itself uses, so trim markers are applied as at run time), the two
//                   conditionals on template-data are split into four paths, and the output of each path is
//                   a sequence of literal pieces and two symbolic values B (the content of the
//                   boilerplate file) and T (the build-constraint expression). The obligations are
//                   statements about that sequence, for all B and T.
//  2. headerSample  bounded stand-in, never counted: the real binary is run on sample configurations
//                   (boilerplate with/without trailing newline, one/many lines; single tag, negation,
//                   conjunction, disjunction; both templates; three formatters) and the Go toolchain's own
//                   code decides: go/ast.IsGenerated for the marker, go/build.Context.MatchFile against
//                   the truth table of the expression for the constraint.

import (
	"fmt"
	"go/ast"
	"go/build"
	"go/build/constraint"
	"go/parser"
	"go/token"
	"os"
	"path/filepath"
	"regexp"
	"sort"
	"strings"
	"text/template/parse"
)

type hpiece struct {
	text   string // literal
	action string // non-empty: the pipeline text of an action whose value is symbolic
}

var generatedRe = regexp.MustCompile(`^// Code generated .* DO NOT EDIT\.$`)

const (
	keyBoiler = "boilerplate-file"
	keyTags   = "mock-build-tags"
)

// hval is the abstract value of a template pipeline in the header.
type hval struct {
	kind string // "key": the template-data entry itself; "file": readFile of it; "pkgname"; "other"
	key  string
	text string
}

const (
	actB   = `index .TemplateData "` + keyBoiler + `" | readFile`
	actT   = `index .TemplateData "` + keyTags + `"`
	actPkg = ".PkgName"
)

func evalPipe(p *parse.PipeNode, env map[string]hval) hval {
	if p == nil || len(p.Cmds) == 0 {
		return hval{kind: "other"}
	}
	var cur hval
	for i, c := range p.Cmds {
		var v hval
		args := c.Args
		extra := 0
		if i > 0 {
			extra = 1 // the previous value is the last argument
		}
		arg := func(n parse.Node) hval {
			switch n := n.(type) {
			case *parse.VariableNode:
				if len(n.Ident) == 1 {
					if x, ok := env[n.Ident[0]]; ok {
						return x
					}
				}
			case *parse.PipeNode:
				return evalPipe(n, env)
			case *parse.FieldNode:
				if len(n.Ident) == 1 && n.Ident[0] == "PkgName" {
					return hval{kind: "pkgname"}
				}
			}
			return hval{kind: "other", text: n.String()}
		}
		switch {
		case len(args) == 1 && extra == 0:
			v = arg(args[0])
		case len(args) >= 1:
			id, isID := args[0].(*parse.IdentifierNode)
			switch {
			case isID && id.Ident == "index" && len(args) == 3 && extra == 0:
				f, ok1 := args[1].(*parse.FieldNode)
				k, ok2 := args[2].(*parse.StringNode)
				if ok1 && ok2 && len(f.Ident) == 1 && f.Ident[0] == "TemplateData" {
					v = hval{kind: "key", key: k.Text}
				} else {
					v = hval{kind: "other", text: c.String()}
				}
			case isID && id.Ident == "readFile" && len(args)+extra == 2:
				in := cur
				if extra == 0 {
					in = arg(args[1])
				}
				if in.kind == "key" {
					v = hval{kind: "file", key: in.key}
				} else {
					v = hval{kind: "other", text: c.String()}
				}
			default:
				v = hval{kind: "other", text: c.String()}
			}
		default:
			v = hval{kind: "other", text: c.String()}
		}
		cur = v
	}
	if cur.kind == "other" && cur.text == "" {
		cur.text = p.String()
	}
	return cur
}

// headerPaths returns, for each of the four settings of (boilerplate-file set?, mock-build-tags set?), the
// pieces the template writes up to and including the text piece that contains the package clause.
// Variables bound to template-data entries (`{{ $x := index .TemplateData "k" }}`) are followed.
func headerPaths(text string) (map[[2]bool][]hpiece, error) {
	t := parse.New("t")
	t.Mode = parse.SkipFuncCheck
	trees := map[string]*parse.Tree{}
	tree, err := t.Parse(text, "", "", trees)
	if err != nil {
		return nil, err
	}
	pkgRe := regexp.MustCompile(`(^|\n)package `)
	out := map[[2]bool][]hpiece{}
	for _, b := range []bool{false, true} {
		for _, tg := range []bool{false, true} {
			var ps []hpiece
			env := map[string]hval{}
			done := false
			var walk func(nodes []parse.Node) error
			walk = func(nodes []parse.Node) error {
				for _, n := range nodes {
					if done {
						return nil
					}
					switch n := n.(type) {
					case *parse.TextNode:
						s := string(n.Text)
						ps = append(ps, hpiece{text: s})
						if pkgRe.MatchString(s) {
							done = true
						}
					case *parse.ActionNode:
						v := evalPipe(n.Pipe, env)
						if len(n.Pipe.Decl) > 0 {
							if len(n.Pipe.Decl) != 1 || n.Pipe.IsAssign || v.kind == "other" {
								return fmt.Errorf("variable statement %s in the header is not a binding of a template-data entry", n.String())
							}
							env[n.Pipe.Decl[0].Ident[0]] = v
							continue
						}
						switch {
						case v.kind == "file" && v.key == keyBoiler:
							ps = append(ps, hpiece{action: actB})
						case v.kind == "key" && v.key == keyTags:
							ps = append(ps, hpiece{action: actT})
						case v.kind == "pkgname":
							ps = append(ps, hpiece{action: actPkg})
						default:
							ps = append(ps, hpiece{action: n.Pipe.String()})
						}
					case *parse.CommentNode:
					case *parse.IfNode:
						v := evalPipe(n.Pipe, env)
						var set bool
						switch {
						case v.kind == "key" && v.key == keyBoiler:
							set = b
						case v.kind == "key" && v.key == keyTags:
							set = tg
						default:
							return fmt.Errorf("conditional on %s in the header is not one of the two template-data switches", n.Pipe.String())
						}
						if set {
							if err := walk(n.List.Nodes); err != nil {
								return err
							}
						} else if n.ElseList != nil {
							if err := walk(n.ElseList.Nodes); err != nil {
								return err
							}
						}
					default:
						return fmt.Errorf("node %T (%s) in the header is outside the shapes the analysis follows", n, truncateStr(n.String(), 60))
					}
				}
				return nil
			}
			if err := walk(tree.Root.Nodes); err != nil {
				return nil, err
			}
			if !done {
				return nil, fmt.Errorf("no package clause found in literal template text")
			}
			// merge adjacent literals
			var merged []hpiece
			for _, p := range ps {
				if p.action == "" && len(merged) > 0 && merged[len(merged)-1].action == "" {
					merged[len(merged)-1].text += p.text
					continue
				}
				merged = append(merged, p)
			}
			out[[2]bool{b, tg}] = merged
		}
	}
	return out, nil
}

type hobl struct {
	name, what string
	ok         bool
	why        string
}

// headerObligations: statements about one path's output, for all values of the symbolic pieces.
func headerObligations(tmpl string, bset, tset bool, ps []hpiece) []hobl {
	var out []hobl
	tag := fmt.Sprintf("templates/%s/header[boilerplate=%v,tags=%v]/", tmpl, bset, tset)
	add := func(name, what string, ok bool, why string) {
		out = append(out, hobl{tag + name, what, ok, why})
	}
	render := func() string {
		var b strings.Builder
		for _, p := range ps {
			if p.action != "" {
				b.WriteString("⟨" + p.action + "⟩")
			} else {
				b.WriteString(p.text)
			}
		}
		return b.String()
	}
	shown := truncateStr(strings.ReplaceAll(render(), "\n", "\\n"), 400)
	// 1. marker: some line before the package clause is literal text from a guaranteed line start to a
	//    literal line break and matches the convention, whatever B and T are
	markerOK, seen := false, []string{}
	pkgSeen := false
	for i, p := range ps {
		if p.action != "" || pkgSeen {
			continue
		}
		segs := strings.Split(p.text, "\n")
		for j, seg := range segs {
			if strings.HasPrefix(seg, "package ") && (j > 0 || i == 0) {
				pkgSeen = true
				break
			}
			startsLine := j > 0 || i == 0
			endsLine := j < len(segs)-1
			if startsLine && endsLine {
				if generatedRe.MatchString(seg) {
					markerOK = true
				}
			} else if strings.Contains(seg, "Code generated") {
				seen = append(seen, fmt.Sprintf("%q is not a whole line for every boilerplate (it is glued to a value of the template)", seg))
			}
		}
	}
	add("marker", "a line before the package clause is literal template text matching `^// Code generated .* DO NOT EDIT\\.$`, from a line start to a line break whatever the boilerplate and the expression are", markerOK, "no such line; "+strings.Join(seen, "; "))
	// 2. nothing but comments and blank lines before the package clause (B is comment-only by the
	//    property's quantifier; T sits on a //go:build line, checked below)
	okComments, why := true, ""
	var idxB, idxT = -1, -1
	nActions := 0
	for i, p := range ps {
		if p.action == "" {
			continue
		}
		nActions++
		switch p.action {
		case `index .TemplateData "` + keyBoiler + `" | readFile`:
			idxB = i
		case `index .TemplateData "` + keyTags + `"`:
			idxT = i
		case ".PkgName":
		default:
			okComments, why = false, "unexpected action "+p.action+" before the package clause"
		}
	}
	// walk the literal lines; a line that contains a symbolic value is judged by its literal prefix
	pos := 0
	full := ""
	var marks []struct {
		at  int
		idx int
	}
	for i, p := range ps {
		if p.action != "" {
			marks = append(marks, struct{ at, idx int }{len(full), i})
			continue
		}
		full += p.text
	}
	_ = pos
	pkgAt := regexp.MustCompile(`(^|\n)package `).FindStringIndex(full)
	if pkgAt == nil {
		okComments, why = false, "no package clause"
	} else {
		headerText := full[:pkgAt[0]]
		lineStart := 0
		for lineStart <= len(headerText) {
			end := strings.Index(headerText[lineStart:], "\n")
			var line string
			if end < 0 {
				line = headerText[lineStart:]
				end = len(headerText) - lineStart
			} else {
				line = headerText[lineStart : lineStart+end]
			}
			// does a symbolic value start inside this line's span?
			holdsB := false
			for _, m := range marks {
				if m.at >= lineStart && m.at <= lineStart+end && m.idx == idxB {
					holdsB = true // the line carries the (comment-only) boilerplate
				}
			}
			trim := strings.TrimSpace(line)
			if trim != "" && !strings.HasPrefix(trim, "//") {
				_ = holdsB
				okComments, why = false, fmt.Sprintf("line %q before the package clause is neither blank nor a // comment", line)
			}
			lineStart += end + 1
		}
	}
	add("only-comments-before-package", "before the package clause the template writes only blank lines, // comment lines and (on lines of their own) the boilerplate, for every comment-only boilerplate", okComments, why)
	// 3. boilerplate verbatim, on lines of its own, before the package clause
	if bset {
		ok, why := idxB >= 0, "no action `index .TemplateData \"boilerplate-file\" | readFile` on this path"
		if ok {
			prev, next := "", ""
			if idxB > 0 {
				prev = ps[idxB-1].text
			}
			if idxB+1 < len(ps) {
				next = ps[idxB+1].text
			}
			_ = prev
			switch {
			case idxB+1 >= len(ps) || ps[idxB+1].action != "" || !strings.HasPrefix(next, "\n"):
				ok, why = false, fmt.Sprintf("the boilerplate is not followed by a line break: what follows would be absorbed into its last comment line (followed by %q)", truncateStr(next, 30))
			default:
				why = ""
			}
		}
		add("boilerplate-verbatim", "the content of the boilerplate file (readFile: C16) is written unmodified before the package clause, and the line it ends on ends with it", ok, why)
	} else {
		add("boilerplate-absent", "without boilerplate-file nothing is read from a file", idxB < 0, "a readFile action is executed although boilerplate-file is unset")
	}
	// 4. the constraint: `//go:build T` is a whole line (go/build honours it anywhere in the run of blank
	//    lines and // comments before the package clause; blank lines around it are not required)
	if tset {
		ok, why := idxT >= 0, "no action `index .TemplateData \"mock-build-tags\"` on this path"
		if ok {
			prev, next := "", ""
			if idxT > 0 && ps[idxT-1].action == "" {
				prev = ps[idxT-1].text
			}
			if idxT+1 < len(ps) && ps[idxT+1].action == "" {
				next = ps[idxT+1].text
			}
			switch {
			case !strings.HasSuffix(prev, "\n//go:build "):
				ok, why = false, fmt.Sprintf("the expression is not written on a line that starts with `//go:build ` (preceded by %q)", tail(prev, 30))
			case !strings.HasPrefix(next, "\n"):
				ok, why = false, fmt.Sprintf("the //go:build line does not end after the expression (followed by %q)", truncateStr(next, 30))
			default:
				why = ""
			}
		}
		add("constraint-line", "the configured expression is written verbatim as `//go:build <expr>` on a line of its own before the package clause (with only-comments-before-package: the position in which go/build honours it)", ok, why)
	} else {
		has := strings.Contains(full, "go:build") || strings.Contains(full, "+build") || idxT >= 0
		add("constraint-absent", "without mock-build-tags the header carries no build constraint", !has, "a build constraint is written although mock-build-tags is unset")
	}
	for i := range out {
		if !out[i].ok {
			out[i].why += " | header on this path: " + shown
		}
	}
	return out
}

func c17Check(cr *checkResult) {
	cr.extra["checker_cmd"] = fmt.Sprintf("/verif/bin/govc check %s --tier %s (symbolic execution of the template headers with text/template/parse; go/ast and go/build on sampled instances; no SMT queries)", cr.prop, cr.tier)
	cr.extra["rule"] = "one evaluation = one header obligation of one path of one built-in template, generated from /repo's current template text; the sampled instances are not counted"
	for _, tn := range []string{"testify", "matryer"} {
		path := filepath.Join(repoDir(), "internal", "mock_"+tn+".templ")
		data, err := os.ReadFile(path)
		if err != nil {
			cr.undecided = append(cr.undecided, fmt.Sprintf("UNDECIDED property=%s obligation=templates/%s reason=%v", cr.prop, tn, err))
			continue
		}
		cr.functions = append(cr.functions, "internal/mock_"+tn+".templ (header: text before the package clause)")
		paths, err := headerPaths(string(data))
		if err != nil {
			cr.undecided = append(cr.undecided, fmt.Sprintf("UNDECIDED property=%s obligation=templates/%s/header reason=the header cannot be executed symbolically: %v", cr.prop, tn, err))
			continue
		}
		var keys [][2]bool
		for k := range paths {
			keys = append(keys, k)
		}
		sort.Slice(keys, func(i, j int) bool { return fmt.Sprint(keys[i]) < fmt.Sprint(keys[j]) })
		for _, k := range keys {
			for _, o := range headerObligations(tn, k[0], k[1], paths[k]) {
				cr.obligations++
				if o.ok {
					cr.discharged++
					cr.per = append(cr.per, perObl{Name: o.name, Kind: "template-header", Result: "proved", Backend: "symbolic execution of the template header (text/template/parse)"})
					if len(cr.samples) < 3 && strings.HasSuffix(o.name, "constraint-line") {
						cr.samples = append(cr.samples, map[string]any{"obligation": o.name, "what": o.what})
					}
					continue
				}
				cr.per = append(cr.per, perObl{Name: o.name, Kind: "template-header", Result: "failed", Backend: "symbolic execution of the template header (text/template/parse)"})
				dir := filepath.Join(outDir(), "replays", cr.prop)
				os.MkdirAll(dir, 0o755)
				rp := filepath.Join(dir, sanitize(o.name)+".txt")
				os.WriteFile(rp, []byte(fmt.Sprintf("property: %s\nfailed obligation: %s\nwhat it states: %s (for every boilerplate content B and expression T)\nverifier output: %s\ntemplate: %s\nno concrete input is attached by the symbolic phase; the bounded phase of this check (instances/header/...) replays sample configurations on the real binary\n", cr.prop, o.name, o.what, o.why, path)), 0o644)
				cr.violations = append(cr.violations, fmt.Sprintf("VIOLATION property=%s replay=%s obligation=%s no-failing-input-found", cr.prop, rp, o.name))
			}
		}
	}
	headerSample(cr)
}

// ---- bounded stand-in: sample configurations on the real binary -------------------------------------

type headerCase struct {
	name, boiler, tags string
}

func headerSample(cr *checkResult) {
	env, err := newInstEnv()
	if env != nil {
		defer env.close()
	}
	if err != nil {
		cr.undecided = append(cr.undecided, fmt.Sprintf("UNDECIDED property=%s obligation=build reason=%s", cr.prop, strings.ReplaceAll(err.Error(), "\n", " | ")))
		return
	}
	cases := []headerCase{
		{"plain", "", ""},
		{"boiler1", "// Copyright Example Corp.", ""},
		{"boilerN-tag", "// Copyright Example Corp.\n//\n// Licensed under the Example License.\n", "mocks"},
		{"tag-not", "", "!production"},
		{"tag-and", "// line one\n// line two", "integration && !windows"},
		{"tag-or", "", "linux || darwin"},
	}
	formatters := []string{"goimports"}
	if cr.tier == "thorough" {
		formatters = []string{"goimports", "gofmt", "noop"}
	}
	bound := fmt.Sprintf("%d header configurations x {testify, matryer} x formatters %v on the corpus; marker by go/ast.IsGenerated, constraint by go/build.Context.MatchFile against the truth table of the expression; NOT a proof, not counted among the obligations", len(cases), formatters)
	cr.bounded = append(cr.bounded, "C17 header samples: "+bound)
	var results []map[string]string
	fail := func(name, text string) {
		dir := filepath.Join(outDir(), "replays", cr.prop)
		os.MkdirAll(dir, 0o755)
		rp := filepath.Join(dir, sanitize(name)+".txt")
		os.WriteFile(rp, []byte(fmt.Sprintf("property: %s\nfailed obligation: %s (bounded stand-in: the real binary on a sample configuration)\n%s\nreplay: build mockery from the tree, generate mocks of /verif/corpus/m/ifaces.go with the template-data shown, and inspect the head of mocks_gen.go\n", cr.prop, name, text)), 0o644)
		cr.violations = append(cr.violations, fmt.Sprintf("VIOLATION property=%s replay=%s obligation=%s", cr.prop, rp, name))
	}
	for _, fm := range formatters {
		for _, tn := range []string{"testify", "matryer"} {
			for _, hc := range cases {
				name := fmt.Sprintf("instances/header/%s.%s.%s", tn, fm, hc.name)
				td := "{"
				if tn == "matryer" {
					td += "skip-ensure: true"
				} else {
					td += "unroll-variadic: true"
				}
				bf := ""
				if hc.boiler != "" {
					bf = filepath.Join(env.scratch, "boiler-"+hc.name+".txt")
					os.WriteFile(bf, []byte(hc.boiler), 0o644)
					td += fmt.Sprintf(", boilerplate-file: %q", bf)
				}
				if hc.tags != "" {
					td += fmt.Sprintf(", mock-build-tags: %q", hc.tags)
				}
				td += "}"
				v := instVariant{pkg: "h", template: tn, templateData: td, formatter: fm}
				root, err := env.generate([]instVariant{v})
				if err != nil && (strings.Contains(err.Error(), "formatting mock file") || strings.Contains(err.Error(), "can't format mock file")) {
					fail(name, fmt.Sprintf("template-data: %s, formatter %s\nthe rendered file is not valid Go (the formatter rejects it):\n%s", td, fm, tail(err.Error(), 600)))
					results = append(results, map[string]string{"case": name, "result": "FAILS"})
					continue
				}
				if err != nil {
					cr.undecided = append(cr.undecided, fmt.Sprintf("UNDECIDED property=%s obligation=%s reason=mockery fails on this configuration: %s", cr.prop, name, strings.ReplaceAll(tail(err.Error(), 300), "\n", " | ")))
					results = append(results, map[string]string{"case": name, "result": "undecided"})
					continue
				}
				file := filepath.Join(root, "h", "mocks_gen.go")
				src, err := os.ReadFile(file)
				if err != nil {
					fail(name, "no mocks_gen.go was written")
					continue
				}
				head := string(src)
				if i := strings.Index(head, "\npackage "); i >= 0 {
					head = head[:i+1]
				}
				var problems []string
				fset := token.NewFileSet()
				f, perr := parser.ParseFile(fset, file, src, parser.ParseComments|parser.PackageClauseOnly)
				if perr != nil {
					problems = append(problems, "the file does not parse: "+perr.Error())
				} else if !ast.IsGenerated(f) {
					problems = append(problems, "go/ast.IsGenerated reports false: no `// Code generated ... DO NOT EDIT.` line before the package clause")
				}
				if hc.boiler != "" && !strings.Contains(head, strings.TrimRight(hc.boiler, "\n")+"\n") {
					problems = append(problems, "the boilerplate does not appear verbatim before the package clause")
				}
				if hc.tags != "" {
					expr, cerr := constraint.Parse("//go:build " + hc.tags)
					if cerr != nil {
						problems = append(problems, "sample expression does not parse: "+cerr.Error())
					} else {
						tagSet := map[string]bool{}
						expr.Eval(func(t string) bool { tagSet[t] = true; return false })
						var tags []string
						for t := range tagSet {
							tags = append(tags, t)
						}
						sort.Strings(tags)
						for mask := 0; mask < 1<<len(tags); mask++ {
							on := map[string]bool{}
							var list []string
							for i, t := range tags {
								if mask&(1<<i) != 0 {
									on[t] = true
									list = append(list, t)
								}
							}
							ctxt := build.Default
							ctxt.GOOS, ctxt.GOARCH = "plan9", "mips" // so that linux/darwin/windows are plain tags decided by BuildTags
							ctxt.BuildTags = list
							ctxt.CgoEnabled = false
							ctxt.ToolTags, ctxt.ReleaseTags = nil, nil
							got, merr := ctxt.MatchFile(filepath.Dir(file), filepath.Base(file))
							want := expr.Eval(func(t string) bool { return on[t] })
							if merr != nil || got != want {
								problems = append(problems, fmt.Sprintf("with tags %v the toolchain includes the file: %v (err %v), the expression %q evaluates to %v", list, got, merr, hc.tags, want))
								break
							}
						}
					}
				} else {
					ctxt := build.Default
					ctxt.BuildTags = nil
					if got, merr := ctxt.MatchFile(filepath.Dir(file), filepath.Base(file)); merr != nil || !got {
						problems = append(problems, "without mock-build-tags the toolchain excludes the file")
					}
				}
				if len(problems) > 0 {
					fail(name, fmt.Sprintf("template-data: %s, formatter %s\nhead of the generated file:\n%s\nproblems:\n  %s", td, fm, head, strings.Join(problems, "\n  ")))
					results = append(results, map[string]string{"case": name, "result": "FAILS"})
					continue
				}
				results = append(results, map[string]string{"case": name, "result": "ok"})
			}
		}
	}
	cr.extra["bounded_standin_header_samples"] = map[string]any{"bound": bound, "results": results}
}
