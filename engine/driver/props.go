package driver

import (
	"fmt"
	"os"

	"verif/engine/symex"
)

// propInfo is the static description of a property check.
type propInfo struct {
	id          string
	patterns    []string // packages to load
	trusted     []string // trusted base, reported in evidence
	assumptions []string
	note        string
	extra       func(cr *checkResult, w *symex.World) // additional phases
	instance    bool                                  // instance-wise verification of generated mocks (instance.go)
}

var commonTrusted = []string{
	"govc itself (translation of the Go subset to SMT; exercised by vacuity canaries and the must-fail corpus, not proved)",
	"go/types and go/packages (golang.org/x/tools v0.31.0)",
	"z3 5.1.0, z3 4.8.12, cvc5 1.0.3",
}

var commonAssumptions = []string{
	"integers that count or index (lengths, loop counters) are mathematical; only template_funcs arithmetic is wrapped to 64 bits",
	"strings are an uninterpreted sort with length/byte/concat/substring axioms; standard-library string functions are uninterpreted pure functions",
	"statements whose only effect is on zerolog values are not part of the verified text (logging terminates and touches no program state; Fatal() exits with status 1)",
	"pointer receivers are non-nil unless the contract says 'safety nil-receiver'",
	"termination is not proved unless a 'decreases' clause is given",
	"slices: element values have value semantics (a write through one slice value is not seen through another that shares its backing array); only the identity of the backing array is tracked, for shares(a, b)",
	"maps, pointers and interface values are references into per-type heaps; two map-typed expressions of different Go types never alias",
	"goroutines, channels operations, select, defer/recover, goto and labelled continue are outside the supported subset (a function using them is reported UNDECIDED, not verified)",
}

var props = map[string]*propInfo{}

func register(p *propInfo) { props[p.id] = p }

func checkCmd(args []string) int {
	if len(args) == 0 {
		fmt.Println("usage: govc check <property> [--tier quick|thorough] [--update-baseline]")
		return 2
	}
	id := args[0]
	p, ok := props[id]
	if !ok {
		fmt.Printf("property %s has no check (see MANIFEST.json not_applicable)\n", id)
		return 2
	}
	update := false
	for _, a := range args[1:] {
		if a == "--update-baseline" {
			update = true
		}
	}
	cr := newCheckResult(id, tierOf(args[1:]))
	cr.trusted = append(append([]string{}, commonTrusted...), p.trusted...)
	cr.assumptions = append(append([]string{}, commonAssumptions...), p.assumptions...)
	if p.id == "C17" {
		c17Check(cr)
		if cr.tier == "thorough" {
			mustFailPhase(cr)
		}
		return cr.finish(p.note)
	}
	if p.id == "C06" {
		c06Check(cr, update)
		if cr.tier == "thorough" {
			mustFailPhase(cr)
		}
		return cr.finish(p.note)
	}
	if p.instance {
		if len(p.patterns) > 0 {
			// functions of the repository that the instance-wise property also depends on
			w, err := symex.Load(repoDir(), p.patterns, nil)
			if err != nil {
				cr.undecided = append(cr.undecided, "load: "+err.Error())
				fmt.Printf("UNDECIDED property=%s obligation=load reason=%v\n", id, err)
				return cr.finish(p.note)
			}
			cr.blSuffix = "-repo"
			contractPhase(cr, w, update)
			cr.blSuffix = ""
		}
		instancePhase(cr, update)
		if cr.tier == "thorough" {
			mustFailPhase(cr)
		}
		return cr.finish(p.note)
	}
	w, err := symex.Load(repoDir(), p.patterns, nil)
	if err != nil {
		// the tree does not load (does not compile): nothing can be decided
		fmt.Printf("UNDECIDED property=%s obligation=load reason=%v\n", id, err)
		cr.undecided = append(cr.undecided, "load: "+err.Error())
		return cr.finish(p.note)
	}
	contractPhase(cr, w, update)
	if p.extra != nil {
		p.extra(cr, w)
	}
	if cr.tier == "thorough" {
		mustFailPhase(cr)
	}
	return cr.finish(p.note)
}

func init() {
	register(&propInfo{
		id: "C06",
		trusted: []string{
			"the iteration-footprint separation rule and its tables of external functions (symex/order.go): read-only externals (fmt, errors, strings, strconv, path/filepath, regexp, go/types, go/ast, reflect.Value getters), externals that write only their receiver (reflect.Value.Set, bytes.Buffer, strings.Builder, text/template.Template), and types treated as immutable once built (go/types, go/ast, go/token, packages.Package, context.Context, reflect.Type, regexp.Regexp, zerolog)",
			"go/packages returns the packages of a pattern list, their files and their syntax trees in an order that is a function of the patterns' contents only (the order of the patterns may vary: see the assumed loop of GetPackages)",
			"the formatters (goimports, gofmt) are functions of their input bytes",
		},
		assumptions: []string{
			"scope: functions of config, internal, internal/cmd (without the init, migrate, showconfig and version sub-commands), template and template_funcs; internal/logging and tools/ are outside (log output is not part of the property)",
			"whole-run equality is NOT proved: what is proved is the lemma set (every map-range loop commutes under the stated footprint assumptions, no other source of variation is used, generated files declare no interfaces); sequential composition of deterministic steps is deterministic",
			"an error returned from inside a map-range loop makes the run fail (errors are not swallowed: C09), so which key fails first changes only the message of a failing run",
		},
		note: "partial, lemma-level claim for C06; the order-independence obligations are decided by a footprint rule over the typed AST (callee frames from callee bodies or assigns clauses), not by SMT queries; two loops are assumed, not checked, and are listed",
	})
	register(&propInfo{
		id: "C17",
		trusted: []string{
			"text/template/parse (the parser mockery itself uses): trim markers are applied to the text nodes exactly as at run time; an {{if}} on (index .TemplateData k) takes its list exactly when the key is set to a non-empty value",
			"template_funcs readFile returns the file's content unmodified (contract of ReadFile, property C16)",
			"go/build's rule for //go:build lines (honoured when preceded only by blank lines and // comments and placed before the package clause) and go/ast.IsGenerated's rule for the marker, as implemented by the Go release in use",
			"the formatters keep the comments and blank lines of the header (sampled by the bounded phase, not proved)",
		},
		assumptions: []string{
			"the boilerplate is comment-only text (every line blank or starting with //), as the property's quantifier says; the expression is a valid build-constraint expression",
			"only the text before the package clause is analysed; the two conditionals on template-data are the only control flow the analysis follows there (any other construct makes the check UNDECIDED, not proved)",
		},
		note: "header obligations hold for every boilerplate content and every expression on each of the four paths of each built-in template; they are statements about template text, decided by symbolic execution of the header and literal string reasoning, not by SMT; the toolchain's acceptance of the result is sampled (bounded), not proved",
	})
	register(&propInfo{
		id:       "C15",
		patterns: []string{"./template"},
		trusted: []string{
			"fmt.Sprintf is a pure function of its arguments and a format containing %d yields a non-empty string",
			"TypesPackage implementations are pure (Name()/Path() are functions of the value)",
			"sort.Slice leaves a permutation of its argument ordered by the given less function",
			"templates do not write the exported Package.Alias field",
		},
		assumptions: []string{"termination of the two suffix searches (SuggestName, addImport) is argued, not proved: finitely many names are visible and Sprintf(\"%s%d\") is injective in the counter"},
		note:        "full function-level claim: representation invariant of Registry (bijection paths<->qualifiers) and set semantics of MethodScope.visibleNames are proved for every input and every call history; partial correctness",
	})
}

// funcMapPhase checks the direct bindings of template_funcs.FuncMap (object identity with the
// documented namesake, decided by go/types) and that every key has a contract.
func funcMapPhase(cr *checkResult, w *symex.World) {
	pkg := w.Pkgs["github.com/vektra/mockery/v3/template_funcs"]
	if pkg == nil {
		cr.undecided = append(cr.undecided, "UNDECIDED property=C16 obligation=funcmap reason=package template_funcs not loaded")
		return
	}
	covered := map[string]bool{}
	for _, c := range w.Contracts {
		if len(c.Target) > 8 && c.Target[:8] == "funcmap " {
			key := c.Target[8:]
			if len(key) >= 2 {
				key = key[1 : len(key)-1]
			}
			covered[key] = true
			if c.Binding == "" || c.Fn == nil {
				continue
			}
			name := "template_funcs.FuncMap[\"" + key + "\"]/binding"
			got := w.BindingObject(c)
			cr.obligations++
			res := "proved"
			if got == c.Binding {
				cr.discharged++
			} else {
				res = "refuted"
				dir := outDir() + "/replays/C16"
				os.MkdirAll(dir, 0o755)
				path := dir + "/" + sanitize(name) + ".txt"
				os.WriteFile(path, []byte(fmt.Sprintf("property: C16\nfailed obligation: %s\nFuncMap[%q] is documented to be %s but is bound to %s (object identity by go/types)\nfailing input: any template that calls %q\n", name, key, c.Binding, got, key)), 0o644)
				cr.violations = append(cr.violations, fmt.Sprintf("VIOLATION property=C16 replay=%s obligation=%s", path, name))
			}
			cr.per = append(cr.per, perObl{Name: name, Kind: "binding", Result: res, Backend: "go/types"})
		}
	}
	for _, k := range w.FuncMapKeys(pkg, "FuncMap") {
		if !covered[k] {
			cr.undecided = append(cr.undecided, fmt.Sprintf("UNDECIDED property=C16 obligation=template_funcs.FuncMap[%q] reason=key has no contract (new template function without a documented specification)", k))
		}
	}
}

func init() {
	register(&propInfo{
		id:       "C16",
		patterns: []string{"./template_funcs"},
		trusted: []string{
			"strings.*, unicode.*, utf8.DecodeRuneInString, slices.Min, regexp.*, filepath.*, xstrings.*, math.* are uninterpreted pure functions: only that mockery passes the documented arguments in the documented order (or binds the documented object) is proved",
			"axioms lower_is_letter (Unicode Ll is a subset of L and disjoint from Lu) and decode_size (1 <= size <= len) in template_funcs/zz_verif_contracts.go",
			"os.ReadFile is an opaque file-system read",
			"division by zero and slices.Min on an empty slice panic; text/template converts the panic into a template error (allowed by the property)",
		},
		note:  "full for mockery's own code: every FuncMap entry is either proved equal to its documented namesake applied in the documented argument order (lambdas), proved to be the documented object (direct bindings, by go/types identity), or proved against a functional specification (Exported, FirstIsLower, ReadFile, Add/Sub/Mul/Div/Mod/Incr/Decr/Min at int with 64-bit wrap-around)",
		extra: funcMapPhase,
	})
}

func init() {
	register(&propInfo{
		id:       "C07",
		patterns: []string{"./config", "./internal", "./internal/cmd", "./template"},
		trusted: []string{
			"regexp.MatchString(p, s) is a pure function; its error depends on the pattern only; an invalid pattern matches nothing",
			"packages.Load returns one syntax tree per Go file (axiom loader_syntax); ast.Walk calls Visit on nodes of the file and follows the ast.Visitor protocol (a nil result prunes the subtree)",
			"go/types accessors (Scope.Lookup, IsInterface, Named.Obj, TypeName.Pkg, ...) are pure functions of their receiver",
			"mergeConfigs: see C08",
		},
		note: "partial: the selection predicate (ShouldGenerateInterface) is proved to be the property's iff verbatim for all flag/regex/name combinations; discovery (NodeVisitor.Visit, ParsePackages), the sub-package filter (subPackages closure, ShouldExcludeSubpkg), one-mock-per-configs-entry (InterfaceConfig.Initialize) and recursive expansion (RootConfig.Initialize inner loop) are proved; the per-interface expansion in RootApp.Run (a mock is collected only for an interface ShouldGenerateInterface selected, once per entry of its configs list, with that entry as its configuration) is proved by call-site obligations; the AST walk itself (ast.Walk) is assumed",
	})
}

func init() {
	register(&propInfo{
		id:       "C08",
		patterns: []string{"./config", "./internal/cmd", "./internal", "./template"},
		trusted: []string{
			"package reflect: ValueOf, Elem, Field, NumField, Kind, Type, Interface, IsNil, IsZero, CanSet, Set, New evaluated on static descriptors (DESIGN.md 3.5); the struct's field list comes from go/types on every run",
			"template-data and _anchors values are trees as produced by the YAML decoder (ghost depth labelling TreeInv/AllTop/ghostFresh is a precondition of the merge functions); top-level maps of different config levels are distinct objects (hypothesis 'sep' of the key-by-key postconditions)",
			"koanf/mapstructure/YAML decoding is outside this check: after UnmarshalWithConf nothing is known about the RootConfig, so the precondition of RootConfig.Initialize (every pointer parameter of the top level set, template-data values are trees) is an assumption about decoded configurations, not discharged at the call site in NewRootConfig",
		},
		note: "partial: the merge machinery is proved field by field for the actual fields of config.Config: mergeConfigs (reflection resolved statically; pointer parameters: most specific level wins, otherwise a fresh copy; slices and typed maps inherited when unset; map[string]any merged key by key), mergeStringMaps (recursive, with loop invariants over a ghost visited set), and the three Initialize functions (which level is merged into which: call-site obligations; every level reached: loop invariants). The load order defaults < env < file < flags is proved on NewRootConfig by call-site obligations; decoding itself (koanf/mapstructure) is assumed; of the read sites in Run only the template is stated (known finding D7).",
	})
}

func init() {
	register(&propInfo{
		id:       "C19",
		patterns: []string{"./internal/cmd"},
		trusted: []string{
			"yaml.v3 decoding of the v2 file and encoding of the v3 file (round-trip, strict-loader acceptance) are outside the check",
			"package reflect on static descriptors (checkDeprecatedTemplateVariables walks V2Config's actual fields)",
			"pathlib.OpenFile with the given flags behaves as POSIX open(2)",
		},
		note: "partial: migrateConfig is proved for every combination of set/unset v2 keys (one VC, symbolic): each v2 setting with a v3 counterpart lands with the same value under its v3 name or template-data key, the template-data map gains no other key, every other v3 parameter is untouched, the v2 struct is not modified, and no nil pointer is dereferenced; checkDeprecatedTemplateVariables (reflection resolved statically) and tableWriter.Append only touch the deprecation table; run's call sites: input opened read-only, output opened once on the requested path, each level migrated from the same-named v2 level. YAML codec behaviour is assumed.",
	})
}

func init() {
	register(&propInfo{
		id:       "C18",
		patterns: []string{"./internal/cmd", "./config"},
		trusted: []string{
			"pathlib.OpenFile(O_RDWR|O_CREATE|O_EXCL) is POSIX open(2): success implies that no file existed at the path",
			"yaml.v3 Encoder writes only to the handle it was given; YAML quoting round-trips; the strict loader accepts what the encoder wrote (outside the check)",
			"koanf: k.Load(structs.Provider(c)) loads exactly the struct's values; k.Unmarshal fills the RootConfig from them",
			"cobra enforces ExactArgs(1) before initRun is called (precondition len(args) == 1)",
		},
		note: "partial: on initRun the call-site obligations show that the file is opened exactly once, exclusively (O_EXCL|O_CREATE, no O_TRUNC), at the path given by --config or .mockery.yml; that the only write (Encode) happens after that open succeeded, exactly once, with the RootConfig that came from config.NewDefaultKoanf plus packages = {arg: {config: {all: true, everything else unset}, interfaces: {}}}; that no other file-system mutation is reachable (fs-frame); NewDefaultKoanf is proved to load the defaults provider only. Round-tripping through YAML and the subsequent run are library behaviour and not covered.",
	})
}

func init() {
	register(&propInfo{
		id:       "C11",
		patterns: []string{"./config"},
		trusted: []string{
			"text/template Parse+Execute with the function library is a deterministic, terminating function render(text, data) (false for the randInt function); (*bytes.Buffer).String returns what Execute wrote",
			"ast.IsExported, pathlib.Parent/String, filepath.Dir are uninterpreted namesakes",
			"axiom errinfiniteloop_nonnil: the package variable ErrInfiniteLoop is non-nil and never reassigned",
			"ConfigDir is checked against filepath.Dir(*c.ConfigFile); whether that parameter names the file actually used (search case) and InterfaceDirRelative's base directory are outside this contract (documented finding D11, not claimed)",
		},
		note: "partial: on Config.ParseTemplates the data handed to every template execution is proved to carry the documented bindings (Mock by exportedness of the interface name, InterfaceName/File/Dir, SrcPackageName/Path, StructName, Template, ConfigDir), the function library is attached before parsing, the result is a fixpoint (err == nil implies every one of dir/filename/pkgname/structname/template-schema renders to itself, by a ghost-visited-set invariant over the attribute map), and evaluation terminates (variant 21 - i) with a non-nil error, not a truncated value, when the 20-pass cap is hit. FindConfig and the documented meaning of InterfaceDirRelative/ConfigDir in the search case are not covered.",
	})
}

var genTrusted = []string{
	"go/types accessors are pure functions of their receiver (one uninterpreted function per static receiver type); axioms listed in the contract files: Func.Type() is a *Signature, Tuple.At/TypeParamList.At/Interface.Method are non-nil in range, IsInterface(T) implies Underlying(T) is *Interface, TypeParam.Constraint() has interface underlying type, NewParam(...).Type() is its argument",
	"text/template rendering (the template text itself), types.TypeString, goimports/gofmt are outside the check",
	"packages.Load for replace-type targets is opaque",
}

func init() {
	register(&propInfo{
		id: "C12", patterns: []string{"./internal", "./template"},
		trusted: append([]string{
			"gojsonschema is an uninterpreted pure library: valid(schema, td) means Validate returns no error and Valid(); NewSchema returns a schema whenever it returns no error (axiom)",
			"download(url) yields content(url), a value assumed stable during one run (trusted contract: file read / HTTP GET)",
		}, genTrusted...),
		note: "partial: validateSchema (file-level data and every interface, iff), TemplateData.VerifyJSONSchema, getTemplate (built-in schema for built-in templates; for remote templates the schema at template-schema exactly when require-template-schema-exists; unknown names and failed downloads are errors; cache entries really hold what their URLs yield), RemoteTemplate.Template/Schema (at most one download, an error is not cached as success) and the order of stages in Generate (validation before execution and formatting, nothing returned on failure) are proved. JSON-schema semantics are gojsonschema's.",
	})
	register(&propInfo{
		id: "C13", patterns: []string{"./internal", "./template", "./config"},
		trusted: genTrusted,
		note:    "partial: GetReplacement is the two-level map lookup; methodData looks every parameter and result up under exactly (package path, name) of its own named or alias type and hands that replacement to AddVar for that variable only; AddVar with a replacement uses the type found in the loaded package and records only the replacement's package for the variable, without one it uses the variable's type and the imports of that type; inheritance of replace-type across levels is mergeConfigs' typed-map postcondition (C08). Rendering and compilation of the result are not covered.",
	})
	register(&propInfo{
		id: "C14", patterns: []string{"./internal", "./template", "./template_funcs"},
		trusted: genTrusted,
		note:    "lemma-level: methodData (one Method with the method's name; parameters and results in signature order, bound to the signature's variables, variadic flag only on the last parameter of a variadic signature), typeParams (one entry per type parameter, in order, with its constraint), Generate (one Method per method of the looked-up interface, in order), ResolveVariableNameCollisions (names pairwise distinct and none equal to a name visible before: qualifiers, type strings), varName (generated names are not keywords, predeclared types or template identifiers), AddVar (type string reserved as a name); the list accessors of the data model (Method.ArgList, ArgTypeList, ArgTypeListEllipsis, ArgCallList*/argCallListSlice, ReturnArgTypeList, ReturnArgNameList, ReturnArgList, IsVariadic, the call-list wrappers, ReturnStatement, HasParams, HasReturns, AcceptsContext, ReturnsError; Param.Name, TypeString, TypeStringEllipsis, TypeStringVariadicUnderlying, MethodArg, CallName; Interface.TypeConstraint, TypeInstantiation; Interfaces.ImplementsSomeMethod; NewData): each list is the join of one piece per parameter, result or type parameter, in order, built from that element's own name and type string with the documented accessor. That the offered type strings denote the same Go types (types.TypeString with the registry's qualifiers; Var.TypeString is trusted) is not decided.",
	})
	register(&propInfo{
		id: "C02", patterns: []string{"./internal", "./template", "./template_funcs"},
		trusted: genTrusted,
		extra:   implementsPhase,
		note:    "lemma-level: Registry.LookupInterface returns the complete interface of the looked-up object and errors on missing or non-interface objects; Generate builds one Method per method of that interface, in order, each from iface.Method(i); methodData reproduces parameter and result counts, order, variables and variadic-ness; ParsePackages never yields function-local types, so no interface is returned twice for that reason. Instance facts: for every non-generic interface of the corpus /verif/corpus/m/ifaces.go and both built-in templates, go/types confirms that the freshly generated *Mock implements the interface (a sample over interfaces). That the templates render what the data model says for interfaces outside the corpus is not decided.",
	})
	register(&propInfo{
		id: "C01", patterns: []string{"./internal", "./template"},
		trusted: genTrusted,
		extra:   compilePhase,
		note:    "lemma-level (necessary mechanisms only): registry bijection between import paths and qualifiers (C15); Registry.Imports returns every registered import exactly as registered, sorted by path (the comparator handed to sort.Slice is proved to order by the path; package sort's contract is assumed), Packages.PkgQualifier finds an import by path; import bookkeeping of a variable (MethodScope.addImport, populateImports*: invariants and monotonicity, a named type's own package is recorded); variable names avoid qualifiers, type strings, keywords and template identifiers (C14); findPkgPath reads the module path with the go.mod parser, creates only the output directory and terminates; NewTemplateGenerator's in-package test (same package name and same directory); format dispatches on the three documented formatters and errors otherwise. Whether the rendered text type-checks is not decided by contracts.",
	})
	register(&propInfo{
		id: "C10", patterns: []string{"./internal/cmd", "./internal", "./config", "./template"},
		trusted: []string{
			"the table of file-system mutators (os, io/fs, pathlib, afero: WriteFile, MkdirAll, OpenFile, Create, Remove, Rename, Chmod, ...) is complete for the packages reachable from RootApp.Run; external calls outside that table do not write files",
			"pathlib.Path.WriteFile(b) is os.WriteFile (O_WRONLY|O_CREATE|O_TRUNC then write): a crash or short write in the middle of that system call sequence can leave a partial file; atomicity below the call is the operating system's and is NOT proved (documented limit of the all-or-nothing clause)",
			"pathlib.Path.Exists reports whether a file exists at the path at that moment; no other process changes the tree between Exists and WriteFile",
			"remote template download and goimports/gofmt do not write inside the tree",
		},
		note: "partial: on the real RootApp.Run and TemplateGenerator.Generate (fs-frame safety): the only reachable file-system mutations are MkdirAll on the parent of an output path and one WriteFile on the output path (plus MkdirAll of the output directory in findPkgPath); the WriteFile receives exactly the bytes Generate returned, and happens only after Generate, MkdirAll and Exists returned nil, and only if the file does not exist or the owning package's effective force-file-write is true; Generate returns no bytes on any failed stage and formats exactly once after a successful execution; output paths are Clean(dir/filename) of a selected mock's config. Atomicity of the write system call itself is assumed.",
	})
	register(&propInfo{
		id: "C09", patterns: []string{"./internal/cmd", "./internal", "./config", "./template"},
		trusted: append([]string{
			"os.Exit and zerolog Fatal end the process with the given status; cobra turns a non-nil error from Run into exit status 1 (main.go; outside the check)",
			"deep.Copy of a configuration struct does not fail (the struct holds only scalars, strings, slices and maps)",
			"strict decoding of unknown configuration keys is koanf/mapstructure behaviour (ErrorUnused) and outside the check",
			"no-panic is checked only for the explicit safety obligations generated (nil map writes, index bounds, explicit panic calls, type assertions, contracts' nil-deref safety where enabled); a complete absence-of-panic proof for every dereference is not claimed",
		}, genTrusted...),
		note: "partial: on the real RootApp.Run no error of a stage is swallowed (result == nil implies that Initialize, GetPackages, ParsePackages and every per-interface / per-file stage that ran returned nil: loop invariants over ghost last-error records), a run that ends normally has an empty missing-interface map and a non-empty one ends in os.Exit(1); InterfaceCollection.Append rejects exactly mocks whose output file, package name, source package or template differ; ParsePackages fails on load/type errors and never dereferences a failed scope lookup (function-local types); ShouldExcludeSubpkg returns the regex error instead of panicking; getTemplate errors on unknown templates, format on unknown formatters, validateSchema on rejected template-data, ParseTemplates on cyclic values (C11); findPkgPath terminates and uses the go.mod parser. Unknown configuration keys: NewRootConfig is proved to ask the decoder to reject unused keys (ErrorUnused) and to propagate its error; that the decoder does so is library behaviour, as is the exit-status plumbing in main.",
	})
	register(&propInfo{
		id: "C20", patterns: []string{"./tools/cmd"},
		trusted: []string{
			"Masterminds/semver: GreaterThan is a strict weak order (axioms semver_irreflexive, semver_order); NewVersion is a function of its argument",
			"go-git read accessors (Repository.TagObject, Reference.Hash/Name, ReferenceName.Short, Status.IsClean) are functions of the repository state; Repository.Tags().ForEach calls the callback once per tag reference, in order, stops at the first error and returns it (the call is cut like a range loop over an abstract sequence)",
			"the table of go-git mutators (Repository.CreateTag/DeleteTag/CreateBranch/Push/..., Worktree.Add/Commit/Checkout/Reset/..., storer SetReference/RemoveReference) is complete for what tools/cmd can reach; CreateTag/DeleteTag change only the named tag reference (and its tag object)",
			"viper: a flag bound on an instance with BindPFlag is visible to that instance's Unmarshal, with the flag's default when it was not given; package-level viper functions act on a global instance different from any viper.New() instance",
			"go-errors: Is(e, e) for non-nil e; errors.New never returns nil; plumbing.ErrObjectNotFound is non-nil",
			"strings.Split(s, \".\") has at least one element",
			"the cobra command closure in NewTagCmd (exit statuses 8 / 1) is not under contract",
		},
		note: "partial: on the real tools/cmd: largestTagSemver returns an upper bound (in semver order) of every full semantic-version tag with the requested major, annotated or lightweight, for every tag sequence (loop invariant over the abstract reference sequence of ForEach); Tag calls createTag only if the requested version is strictly greater than that bound, the work tree status IsClean() and every earlier step succeeded, returns ErrNoNewVersion without tagging otherwise, and reaches no repository mutation itself (effect frame); createTag performs no mutation when DryRun is set and otherwise deletes and creates exactly the full-version tag and the major-version tag on HEAD, twice CreateTag in total; NewTagCmd defines --dry-run with default true and binds it on the viper instance the Tagger reads (finding D13, fixed). Exit statuses of the cobra closure and go-git's own behaviour are outside the check.",
	})
	instTrusted := []string{
		"the corpus /verif/corpus/m/ifaces.go is a sample of interfaces (8 interfaces, 20 methods: 0..3 parameters and results, error first/last/absent, variadic of interface and basic type, function/map/channel/pointer/slice types, two type parameters, embedded interfaces from two packages, unnamed parameters, parameter names that collide with template identifiers); the statement is proved for each generated instance, not for every interface",
		"the contract of each generated method is instantiated from the SOURCE interface's signature and the property statement by driver/instance.go; the names MFunc, MCalls, ResetMCalls, ResetCalls come from the property, the internal field names calls/lockM from the template (a renaming there shows up as a failed structure obligation, not as a pass)",
		"a call through a user-supplied function value may do anything (also call the mock again): what must hold is stated at the moment of the forwarding call and about the ghost record of that call",
		"sync.RWMutex/sync.Mutex follow their documented protocol; lock-discipline meta-theorem: if every access to a location happens while its lock is held (writes under the write lock) there is no data race on it and the critical sections are atomic, so no record is lost or duplicated",
		"mockery itself (configuration, go/packages, template execution, goimports) runs as a black box to produce the instances; a failure to generate or to type-check the corpus is reported UNDECIDED",
	}
	register(&propInfo{id: "C04", instance: true, trusted: instTrusted,
		note: "instance-wise: for every method of every corpus interface, in the variants {with-resets} and {stub-impl}, the generated method is proved to record exactly one call record holding the arguments in parameter order (earlier records untouched, other methods' records and all Func fields untouched) before forwarding, to forward to MFunc exactly once with exactly the arguments, to return exactly what that call returned, to panic when MFunc is nil (or, with stub-impl, to record and return zero values without any call); MCalls returns the records; ResetMCalls/ResetCalls empty exactly the named records; the struct layout (one Func field with the method's signature, one record slice with one field per parameter of the parameter's type, one RWMutex per method, no further methods) is decided by go/types. A sample over interfaces (the corpus), a proof over values and histories."})
	register(&propInfo{id: "C05", instance: true, trusted: instTrusted,
		note: "instance-wise, matryer: every read of a record slice happens under its method's read or write lock and every write under the write lock (guarded-by obligations on each syntactic access), Lock/Unlock/RLock/RUnlock follow the protocol on every path (no self-deadlock, no unlock of an unheld lock), no lock is held when the user's function is called or when a method returns. By the lock-discipline meta-theorem this gives data-race freedom and atomic appends for all schedules. Testify-style mocks: not covered by this check (see DESIGN.md 0)."})
	register(&propInfo{id: "C03", instance: true, patterns: []string{"./template"}, trusted: append([]string{
		"testify's mock package is a black box: Called returns the Arguments given to Return for the matching expectation, Arguments.Get(i)/Error(i) is element i, On registers an expectation, a call without matching expectation fails the test, unmet expectations are reported by AssertExpectations at cleanup; none of this is proved here",
		"a configured value of the wrong dynamic type makes the generated type assertion panic; that is accepted behaviour (safety type-assert-may-panic)",
	}, instTrusted...),
		note: "instance-wise, testify-style mocks of the corpus in the variants {unroll-variadic: true} and {unroll-variadic: false}: every generated method hands exactly the call's arguments to Called, exactly once, position by position (variadic: element-wise when unrolled, as one trailing slice argument - absent when empty - otherwise; never the caller's own backing array), panics when results are expected and none was configured, calls a configured provider function only with exactly the arguments and only if it came out of the configured return values, returns for every result either the configured value at its position, the zero value for a configured nil, or what a provider returned, and writes no state of its own (frame: assigns nothing); every expecter method registers the expectation under the method's name with the arguments in order; the typed Run wrapper calls the callback once with exactly the arguments (variadic rebuilt element-wise), Return/RunAndReturn hand testify exactly the values / the function. Function-level: Var.Nillable/nillable is true for every type whose values can be nil. Known finding reported on every run: nil for an interface-typed fixed parameter panics in the Run wrapper (D12a). Not covered: testify's matching semantics, cleanup assertions."})
}
