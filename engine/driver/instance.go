package driver

// Instance-wise verification of the generator's output (DESIGN.md 5).
//
// The templates are text; no contract can be attached to them. What is verified is what they
// produce: on every run a fresh mockery is built from /repo's working tree and run over the fixed
// corpus of interfaces in /verif/corpus (copied to a scratch directory outside /repo and /verif);
// for every method of every corpus interface a contract is instantiated mechanically from the
// SOURCE interface's signature and the property statement, written next to the generated file, and
// the generated functions are verified against it by the same engine as the repository's own code.
// Over argument values, call histories and (through the lock discipline) schedules this is a proof
// for each instance; over interfaces it is the corpus, a sample, and is labelled so.

import (
	"fmt"
	"go/ast"
	"go/token"
	"go/types"
	"os"
	"os/exec"
	"path/filepath"
	"sort"
	"strings"

	"golang.org/x/tools/go/packages"

	"verif/engine/symex"
)

type instVariant struct {
	pkg          string // package (and directory) name inside the scratch corpus module
	template     string
	templateData string // YAML flow mapping
	stub         bool
	resets       bool
	unroll       bool
	source       string   // corpus source file relative to /verif/corpus (default m/ifaces.go)
	srcPkg       string   // its package name
	extraDirs    []string // further directories of /verif/corpus to copy into the scratch module (packages the source imports)
	formatter    string   // default goimports
	outOfPkg     bool     // generate into a sub-directory "mocks" as package mocks (default: next to the interface)
	filename     string   // output file name template (default mocks_gen.go)
	moreSources  []string // further source files of the same package, relative to /verif/corpus (package clause renamed likewise)
}

var matryerVariants = []instVariant{
	{pkg: "m", template: "matryer", templateData: "{skip-ensure: false, with-resets: true}", resets: true},
	{pkg: "ms", template: "matryer", templateData: "{skip-ensure: true, stub-impl: true}", stub: true},
}

const corpusModule = "example.com/corpus"

func cleanEnv(extra ...string) []string {
	var env []string
	for _, e := range os.Environ() {
		if strings.HasPrefix(e, "GOFLAGS=") || strings.HasPrefix(e, "GOSUMDB=") || strings.HasPrefix(e, "GOTOOLCHAIN=") ||
			strings.HasPrefix(e, "MOCKERY_") || strings.HasPrefix(e, "GOWORK=") {
			continue
		}
		env = append(env, e)
	}
	return append(append(env, "GOPROXY=off"), extra...)
}

// instEnv is one scratch directory with a mockery binary built from the working tree.
type instEnv struct {
	scratch, bin string
	n            int
}

func newInstEnv() (*instEnv, error) {
	base := os.Getenv("VERIF_SCRATCH")
	if base == "" {
		base = "/var/tmp"
	}
	scratch, err := os.MkdirTemp(base, "govc-inst-")
	if err != nil {
		return nil, err
	}
	e := &instEnv{scratch: scratch, bin: filepath.Join(scratch, "mockery")}
	cmd := exec.Command("go", "build", "-o", e.bin, ".")
	cmd.Dir = repoDir()
	cmd.Env = cleanEnv()
	if out, err := cmd.CombinedOutput(); err != nil {
		return e, fmt.Errorf("building mockery from the working tree: %v\n%s", err, out)
	}
	return e, nil
}

func (e *instEnv) close() {
	if os.Getenv("VERIF_KEEP_SCRATCH") != "" {
		fmt.Println("scratch kept:", e.scratch)
		return
	}
	os.RemoveAll(e.scratch)
}

// generate writes a scratch corpus module with one package per variant (the corpus source with only its
// package clause renamed), runs mockery over it and returns the module root.
func (e *instEnv) generate(variants []instVariant) (root string, err error) {
	e.n++
	root = filepath.Join(e.scratch, fmt.Sprintf("corpus%d", e.n))
	os.MkdirAll(root, 0o755)
	src := filepath.Join(verifDir, "corpus")
	gomod, _ := os.ReadFile(filepath.Join(src, "go.mod"))
	for _, v := range variants {
		if v.template == "testify" {
			// the generated testify mocks import testify: same version as the repository, resolved from the module cache
			gomod = append(gomod, []byte("\nrequire github.com/stretchr/testify "+repoModuleVersion("github.com/stretchr/testify")+"\n")...)
			if sum, err := os.ReadFile(filepath.Join(repoDir(), "go.sum")); err == nil {
				os.WriteFile(filepath.Join(root, "go.sum"), sum, 0o644)
			}
			break
		}
	}
	os.WriteFile(filepath.Join(root, "go.mod"), gomod, 0o644)
	var y strings.Builder
	rootFormatter := "goimports"
	if len(variants) == 1 && variants[0].formatter != "" {
		rootFormatter = variants[0].formatter // (mockery reads the formatter from the top level only)
	}
	y.WriteString("formatter: " + rootFormatter + "\nforce-file-write: true\ndir: \"{{.InterfaceDir}}\"\nfilename: \"mocks_gen.go\"\npkgname: \"{{.SrcPackageName}}\"\npackages:\n")
	for _, v := range variants {
		source, srcPkg := v.source, v.srcPkg
		if source == "" {
			source, srcPkg = "m/ifaces.go", "m"
		}
		text, e2 := os.ReadFile(filepath.Join(src, source))
		if e2 != nil {
			return root, e2
		}
		dir := filepath.Join(root, v.pkg)
		os.MkdirAll(dir, 0o755)
		for _, d := range v.extraDirs {
			if out, e3 := exec.Command("cp", "-r", filepath.Join(src, d), filepath.Join(root, d)).CombinedOutput(); e3 != nil {
				return root, fmt.Errorf("copying corpus directory %s: %v %s", d, e3, out)
			}
		}
		// the corpus source, with only its package clause renamed (mechanical)
		renamed := strings.Replace(string(text), "\npackage "+srcPkg+"\n", "\npackage "+v.pkg+"\n", 1)
		os.WriteFile(filepath.Join(dir, "ifaces.go"), []byte(renamed), 0o644)
		for _, ms := range v.moreSources {
			t2, e3 := os.ReadFile(filepath.Join(src, ms))
			if e3 != nil {
				return root, e3
			}
			os.WriteFile(filepath.Join(dir, filepath.Base(ms)), []byte(strings.Replace(string(t2), "\npackage "+srcPkg+"\n", "\npackage "+v.pkg+"\n", 1)), 0o644)
		}
		prefix := "Moq"
		if v.template == "testify" {
			prefix = "Mock"
		}
		fmt.Fprintf(&y, "  %s/%s:\n    config:\n      all: true\n      template: %s\n      structname: \"%s{{.InterfaceName}}\"\n      template-data: %s\n", corpusModule, v.pkg, v.template, prefix, v.templateData)
		if v.formatter != "" {
			fmt.Fprintf(&y, "      formatter: %s\n", v.formatter)
		}
		if v.outOfPkg {
			fmt.Fprintf(&y, "      dir: \"{{.InterfaceDir}}/mocks\"\n      pkgname: mocks\n")
		}
		if v.filename != "" {
			fmt.Fprintf(&y, "      filename: %q\n", v.filename)
		}
	}
	os.WriteFile(filepath.Join(root, ".mockery.yml"), []byte(y.String()), 0o644)
	run := exec.Command(e.bin, "--config", filepath.Join(root, ".mockery.yml"))
	run.Dir = root
	run.Env = cleanEnv("GOFLAGS=-mod=mod", "GOWORK=off")
	if out, e2 := run.CombinedOutput(); e2 != nil {
		return root, fmt.Errorf("mockery failed on the corpus: %v\n%s", e2, tail(string(out), 2000))
	}
	return root, nil
}

// generateInstances: one environment, one generation (used by the instance-wise checks).
func generateInstances(variants []instVariant) (scratch, root string, err error) {
	e, err := newInstEnv()
	if e == nil {
		return "", "", err
	}
	if err != nil {
		return e.scratch, "", err
	}
	root, err = e.generate(variants)
	return e.scratch, root, err
}

// repoModuleVersion reads the version of a dependency from /repo's go.mod.
func repoModuleVersion(mod string) string {
	data, _ := os.ReadFile(filepath.Join(repoDir(), "go.mod"))
	for _, ln := range strings.Split(string(data), "\n") {
		f := strings.Fields(ln)
		if len(f) >= 2 && f[0] == mod {
			return f[1]
		}
		if len(f) >= 3 && f[0] == "require" && f[1] == mod {
			return f[2]
		}
	}
	return "v0.0.0"
}

func tail(s string, n int) string {
	if len(s) > n {
		return s[len(s)-n:]
	}
	return s
}

// loadTypes loads the generated packages (types only) to instantiate the contract schemas.
func loadTypes(root string, variants []instVariant) (map[string]*packages.Package, error) {
	pkgs, err := loadTypesAll(root, variants)
	if err != nil {
		return nil, err
	}
	out := map[string]*packages.Package{}
	for _, p := range pkgs {
		out[p.Name] = p
	}
	return out, nil
}

// rerun runs the binary once more over a module in which it has already generated.
func (e *instEnv) rerun(root string) error {
	run := exec.Command(e.bin, "--config", filepath.Join(root, ".mockery.yml"))
	run.Dir = root
	run.Env = cleanEnv("GOFLAGS=-mod=mod", "GOWORK=off")
	if out, err := run.CombinedOutput(); err != nil {
		return fmt.Errorf("mockery failed: %v\n%s", err, tail(string(out), 2000))
	}
	return nil
}

func loadTypesAll(root string, variants []instVariant) ([]*packages.Package, error) {
	var pats []string
	for _, v := range variants {
		pats = append(pats, "./"+v.pkg)
		if v.outOfPkg {
			pats = append(pats, "./"+v.pkg+"/mocks")
		}
	}
	cfg := &packages.Config{Mode: packages.NeedName | packages.NeedTypes | packages.NeedTypesInfo | packages.NeedSyntax | packages.NeedFiles | packages.NeedImports | packages.NeedDeps,
		Dir: root, Env: cleanEnv("GOFLAGS=-mod=mod", "GOWORK=off")}
	pkgs, err := packages.Load(cfg, pats...)
	if err != nil {
		return nil, err
	}
	for _, p := range pkgs {
		if len(p.Errors) > 0 {
			var msgs []string
			for _, e := range p.Errors {
				msgs = append(msgs, e.Error())
			}
			return nil, fmt.Errorf("generated package %s does not type-check:\n%s", p.PkgPath, strings.Join(msgs, "\n"))
		}
	}
	return pkgs, nil
}

// structural facts decided by go/types (like the direct bindings of C16)
type structFact struct {
	name string
	ok   bool
	why  string
}

// matryerContracts instantiates the matryer schema for one generated package.
func matryerContracts(p *packages.Package, v instVariant) (string, []structFact) {
	var b strings.Builder
	var facts []structFact
	fmt.Fprintf(&b, "//go:build verif\n\n// Contracts instantiated by govc from the source interfaces' signatures (DESIGN.md 5.2, 5.3). Not hand-written.\npackage %s\n\n", p.Name)
	scope := p.Types.Scope()
	names := scope.Names()
	sort.Strings(names)
	qual := types.RelativeTo(p.Types)
	for _, n := range names {
		tn, ok := scope.Lookup(n).(*types.TypeName)
		if !ok || strings.HasPrefix(n, "Moq") {
			continue
		}
		iface, ok := tn.Type().Underlying().(*types.Interface)
		if !ok {
			continue
		}
		mockTN, _ := scope.Lookup("Moq" + n).(*types.TypeName)
		fact := func(name string, ok bool, why string) {
			facts = append(facts, structFact{p.Name + ".Moq" + n + "/" + name, ok, why})
		}
		if mockTN == nil {
			fact("exists", false, "no type Moq"+n+" was generated")
			continue
		}
		mockT := mockTN.Type()
		mockS, ok := mockT.Underlying().(*types.Struct)
		if !ok {
			fact("exists", false, "Moq"+n+" is not a struct")
			continue
		}
		field := func(s *types.Struct, name string) *types.Var {
			for i := 0; i < s.NumFields(); i++ {
				if s.Field(i).Name() == name {
					return s.Field(i)
				}
			}
			return nil
		}
		// a generic mock is parameterised exactly like its interface: same number of type parameters, same constraints
		if named, ok := tn.Type().(*types.Named); ok {
			mn, _ := mockT.(*types.Named)
			okTP := mn != nil && mn.TypeParams().Len() == named.TypeParams().Len()
			why := "same type parameters and constraints as " + n
			if okTP {
				for i := 0; i < named.TypeParams().Len(); i++ {
					a := types.TypeString(named.TypeParams().At(i).Constraint(), qual)
					c := types.TypeString(mn.TypeParams().At(i).Constraint(), qual)
					if a != c {
						okTP = false
						why = fmt.Sprintf("type parameter %d of Moq%s is constrained by %s, the interface's by %s", i, n, c, a)
					}
				}
			}
			if named.TypeParams().Len() > 0 || !okTP {
				fact("type-parameters", okTP, why)
			}
		}
		// the method set of the source interface (embedded interfaces included), in sorted order
		var methods []*types.Func
		for i := 0; i < iface.NumMethods(); i++ {
			methods = append(methods, iface.Method(i))
		}
		sort.Slice(methods, func(i, j int) bool { return methods[i].Name() < methods[j].Name() })
		callsF := field(mockS, "calls")
		var callsS *types.Struct
		if callsF != nil {
			callsS, _ = callsF.Type().Underlying().(*types.Struct)
		}
		fact("calls-field", callsS != nil, "the mock has a struct field 'calls'")
		if callsS == nil {
			continue
		}
		fact("calls-one-per-method", callsS.NumFields() == len(methods), fmt.Sprintf("calls has %d fields for %d methods", callsS.NumFields(), len(methods)))
		mset := types.NewMethodSet(types.NewPointer(mockT))
		type minfo struct {
			name     string
			gen      *types.Func
			rec      *types.Struct
			params   []string
			nres     int
			resT     []types.Type
			variadic bool
		}
		var infos []minfo
		for _, m := range methods {
			name := m.Name()
			srcSig := m.Type().(*types.Signature)
			sel := mset.Lookup(p.Types, name)
			if sel == nil {
				fact(name+"/method", false, "the mock has no method "+name)
				continue
			}
			gen := sel.Obj().(*types.Func)
			genSig := gen.Type().(*types.Signature)
			// same shape as the source method (the compiler's `var _ I = &MoqI{}` line checks identity when skip-ensure is off)
			fact(name+"/arity", genSig.Params().Len() == srcSig.Params().Len() && genSig.Results().Len() == srcSig.Results().Len() && genSig.Variadic() == srcSig.Variadic(),
				"same number of parameters and results, same variadic-ness as "+n+"."+name)
			fn := field(mockS, name+"Func")
			okFn := false
			if fn != nil {
				if fs, isSig := fn.Type().Underlying().(*types.Signature); isSig {
					okFn = types.TypeString(fs, qual) == types.TypeString(types.NewSignatureType(nil, nil, nil, genSig.Params(), genSig.Results(), genSig.Variadic()), qual)
				}
			}
			fact(name+"/func-field", okFn, "field "+name+"Func has exactly the method's signature")
			lk := field(mockS, "lock"+name)
			fact(name+"/lock-field", lk != nil && types.TypeString(lk.Type(), nil) == "sync.RWMutex", "field lock"+name+" is a sync.RWMutex")
			var rec *types.Struct
			if cf := field(callsS, name); cf != nil {
				if sl, isSl := cf.Type().Underlying().(*types.Slice); isSl {
					rec, _ = sl.Elem().Underlying().(*types.Struct)
				}
			}
			okRec := rec != nil && rec.NumFields() == genSig.Params().Len()
			if okRec {
				for i := 0; i < rec.NumFields(); i++ {
					// (compared as text: the receiver of a generic mock's method re-declares the type parameters)
					if types.TypeString(rec.Field(i).Type(), qual) != types.TypeString(genSig.Params().At(i).Type(), qual) {
						okRec = false
					}
				}
			}
			fact(name+"/record", okRec, "calls."+name+" is a slice of structs with one field per parameter, in parameter order, of the parameter's type")
			if !okRec || !okFn || lk == nil {
				continue
			}
			mi := minfo{name: name, gen: gen, rec: rec, nres: genSig.Results().Len(), variadic: genSig.Variadic()}
			for i := 0; i < genSig.Params().Len(); i++ {
				mi.params = append(mi.params, genSig.Params().At(i).Name())
			}
			for i := 0; i < genSig.Results().Len(); i++ {
				mi.resT = append(mi.resT, genSig.Results().At(i).Type())
			}
			infos = append(infos, mi)
		}
		// the receiver name of a generated method (each method has its own: the template avoids parameter names)
		recvOf := func(method string) string {
			if sel := mset.Lookup(p.Types, method); sel != nil {
				if r := sel.Obj().(*types.Func).Type().(*types.Signature).Recv(); r != nil && r.Name() != "" {
					return r.Name()
				}
			}
			return "mock"
		}
		target := func(m string) string { return fmt.Sprintf("(*Moq%s).%s", n, m) }
		for _, mi := range infos {
			recv := recvOf(mi.name)
			loc := recv + ".calls." + mi.name
			lock := recv + ".lock" + mi.name
			fn := recv + "." + mi.name + "Func"
			// record == arguments, field by field in parameter order
			var recEq []string
			for i, pn := range mi.params {
				recEq = append(recEq, fmt.Sprintf("%s[old(len(%s))].%s == %s", loc, loc, mi.rec.Field(i).Name(), pn))
			}
			recorded := fmt.Sprintf("len(%s) == old(len(%s)) + 1", loc, loc)
			if len(recEq) > 0 {
				recorded += " && " + strings.Join(recEq, " && ")
			}
			prefix := fmt.Sprintf("forall k int :: 0 <= k && k < old(len(%s)) ==> %s[k] == old(%s[k])", loc, loc, loc)
			var others []string
			for _, o := range infos {
				others = append(others, fmt.Sprintf("%s.%sFunc == old(%s.%sFunc)", recv, o.name, recv, o.name))
				if o.name != mi.name {
					others = append(others, fmt.Sprintf("%s.calls.%s == old(%s.calls.%s)", recv, o.name, recv, o.name))
				}
			}
			fwd := []string{"$fn == " + fn}
			for i, pn := range mi.params {
				fwd = append(fwd, fmt.Sprintf("$%d == %s", i, pn))
			}
			resName := func(i int) string {
				if mi.nres == 1 {
					return "result"
				}
				return fmt.Sprintf("result%d", i)
			}
			fmt.Fprintf(&b, "// %s.%s: records the call (one record, the arguments in parameter order, under the method's lock),\n// then forwards to %sFunc exactly once with exactly the arguments and returns exactly its results.\n", n, mi.name, mi.name)
			fmt.Fprintf(&b, "//@ func %s props=C04,C05\n", target(mi.name))
			fmt.Fprintf(&b, "//@   guarded[C05] %s by %s\n", loc, lock)
			if !v.stub {
				fmt.Fprintf(&b, "//@   panics_if %s == nil\n", fn)
			}
			fmt.Fprintf(&b, "//@   site#recorded $apply: %s\n", recorded)
			fmt.Fprintf(&b, "//@   site#prefix $apply: %s\n", prefix)
			fmt.Fprintf(&b, "//@   site#forward $apply: %s\n", strings.Join(fwd, " && "))
			fmt.Fprintf(&b, "//@   site#nothingelse $apply: %s\n", strings.Join(others, " && "))
			fmt.Fprintf(&b, "//@   site#unlocked[C05] $apply: !locked(%s)\n", lock)
			if !v.stub {
				fmt.Fprintf(&b, "//@   returns#once applied() == old(applied()) + 1\n")
				for i := 0; i < mi.nres; i++ {
					fmt.Fprintf(&b, "//@   returns#result%d %s == lastres(%d)\n", i, resName(i), i)
				}
			} else {
				fmt.Fprintf(&b, "//@   returns#once (old(%s) != nil ==> applied() == old(applied()) + 1) && (old(%s) == nil ==> applied() == old(applied()))\n", fn, fn)
				for i := 0; i < mi.nres; i++ {
					fmt.Fprintf(&b, "//@   returns#result%d old(%s) != nil ==> %s == lastres(%d)\n", i, fn, resName(i), i)
					fmt.Fprintf(&b, "//@   returns#zero%d old(%s) == nil ==> iszero(%s)\n", i, fn, resName(i))
				}
				fmt.Fprintf(&b, "//@   returns#stubrecorded old(%s) == nil ==> %s\n", fn, recorded)
				fmt.Fprintf(&b, "//@   returns#stubprefix old(%s) == nil ==> (%s)\n", fn, prefix)
				fmt.Fprintf(&b, "//@   returns#stubnothingelse old(%s) == nil ==> %s\n", fn, strings.Join(others, " && "))
			}
			fmt.Fprintf(&b, "//@   returns#released[C05] !locked(%s)\n\n", lock)

			recv = recvOf(mi.name + "Calls")
			loc, lock = recv+".calls."+mi.name, recv+".lock"+mi.name
			fmt.Fprintf(&b, "//@ func %s props=C04,C05\n", target(mi.name+"Calls"))
			fmt.Fprintf(&b, "//@   guarded[C05] %s by %s\n", loc, lock)
			fmt.Fprintf(&b, "//@   ensures#records result == %s\n", loc)
			fmt.Fprintf(&b, "//@   returns#released[C05] !locked(%s)\n", lock)
			fmt.Fprintf(&b, "//@   assigns nothing\n\n")
			if v.resets {
				recv = recvOf("Reset" + mi.name + "Calls")
				loc, lock = recv+".calls."+mi.name, recv+".lock"+mi.name
				fmt.Fprintf(&b, "//@ func %s props=C04,C05\n", target("Reset"+mi.name+"Calls"))
				fmt.Fprintf(&b, "//@   guarded[C05] %s by %s\n", loc, lock)
				fmt.Fprintf(&b, "//@   ensures#emptied len(%s) == 0\n", loc)
				fmt.Fprintf(&b, "//@   ensures#unshared[C05] !shares(%s, old(%s))\n", loc, loc)
				fmt.Fprintf(&b, "//@   returns#released[C05] !locked(%s)\n", lock)
				fmt.Fprintf(&b, "//@   assigns %s\n\n", loc)
			}
		}
		if v.resets && len(infos) > 0 {
			recv := recvOf("ResetCalls")
			fmt.Fprintf(&b, "//@ func %s props=C04,C05\n", target("ResetCalls"))
			var emptied, assigns []string
			for _, mi := range infos {
				fmt.Fprintf(&b, "//@   guarded[C05] %s.calls.%s by %s.lock%s\n", recv, mi.name, recv, mi.name)
				emptied = append(emptied, fmt.Sprintf("len(%s.calls.%s) == 0", recv, mi.name))
				fmt.Fprintf(&b, "//@   ensures#unshared%s[C05] !shares(%s.calls.%s, old(%s.calls.%s))\n", mi.name, recv, mi.name, recv, mi.name)
				assigns = append(assigns, fmt.Sprintf("%s.calls.%s", recv, mi.name))
				fmt.Fprintf(&b, "//@   returns#released%s[C05] !locked(%s.lock%s)\n", mi.name, recv, mi.name)
			}
			fmt.Fprintf(&b, "//@   ensures#emptied %s\n", strings.Join(emptied, " && "))
			fmt.Fprintf(&b, "//@   assigns %s.calls\n\n", recv)
			_ = assigns
		}
		// the mock has no methods besides the ones the property names
		allowed := map[string]bool{}
		for _, mi := range infos {
			allowed[mi.name], allowed[mi.name+"Calls"] = true, true
			if v.resets {
				allowed["Reset"+mi.name+"Calls"] = true
			}
		}
		if v.resets {
			allowed["ResetCalls"] = true
		}
		var extra []string
		for i := 0; i < mset.Len(); i++ {
			if !allowed[mset.At(i).Obj().Name()] {
				extra = append(extra, mset.At(i).Obj().Name())
			}
		}
		fact("no-other-methods", len(extra) == 0, "methods besides M, MCalls, ResetMCalls, ResetCalls: "+strings.Join(extra, ","))
	}
	return b.String(), facts
}

// instancePhase: generate, instantiate contracts, verify. kind is "matryer" (C04, C05).
func instancePhase(cr *checkResult, update bool) {
	var variants []instVariant
	switch cr.prop {
	case "C04":
		variants = matryerVariants
	case "C03":
		variants = testifyVariants
	default:
		variants = append(append([]instVariant{}, matryerVariants...), testifyVariants...)
	}
	if cr.tier == "thorough" {
		// further template-data combinations (the quick tier's baseline does not list them)
		wide := instVariant{source: "w/ifaces.go", srcPkg: "w", extraDirs: []string{"other"}}
		if cr.prop != "C03" {
			mw := wide
			mw.pkg, mw.template, mw.templateData, mw.resets = "mw", "matryer", "{skip-ensure: false, with-resets: true}", true
			variants = append(variants, mw)
		}
		if cr.prop != "C04" {
			tw := wide
			tw.pkg, tw.template, tw.templateData, tw.unroll = "tw", "testify", "{unroll-variadic: true}", true
			variants = append(variants, tw)
		}
		if cr.prop != "C03" {
			variants = append(variants,
				instVariant{pkg: "mr", template: "matryer", templateData: "{skip-ensure: false, stub-impl: true, with-resets: true}", stub: true, resets: true},
				instVariant{pkg: "mp", template: "matryer", templateData: "{skip-ensure: true}"})
		}
		if cr.prop != "C04" {
			variants = append(variants, instVariant{pkg: "tu", template: "testify", templateData: "{}"})
		}
	}
	scratch, root, err := generateInstances(variants)
	if scratch != "" {
		if os.Getenv("VERIF_KEEP_SCRATCH") != "" {
			fmt.Println("scratch kept:", scratch)
		} else {
			defer os.RemoveAll(scratch)
		}
	}
	concrete := func(name, what string, err error) {
		// a failure with a concrete input: the corpus (valid Go, stdlib only) and the configuration written by generateInstances
		dir := filepath.Join(outDir(), "replays", cr.prop)
		os.MkdirAll(dir, 0o755)
		path := filepath.Join(dir, sanitize(name)+".txt")
		var vs []string
		for _, v := range variants {
			vs = append(vs, fmt.Sprintf("%s: template %s, template-data %s", v.pkg, v.template, v.templateData))
		}
		os.WriteFile(path, []byte(fmt.Sprintf("property: %s\nfailed obligation: %s\n%s\nfailing input: the interfaces of /verif/corpus/m/ifaces.go, mocked with 'all: true', formatter goimports, in the variants\n  %s\nreplay: build mockery from the tree, copy /verif/corpus to a scratch module, run mockery there with that configuration, then 'go build ./...'\noutput:\n%s\n", cr.prop, name, what, strings.Join(vs, "\n  "), err.Error())), 0o644)
		cr.obligations++
		cr.per = append(cr.per, perObl{Name: name, Kind: "instance", Result: "refuted", Backend: "mockery + go/types"})
		cr.violations = append(cr.violations, fmt.Sprintf("VIOLATION property=%s replay=%s obligation=%s", cr.prop, path, name))
	}
	if err != nil {
		if root == "" {
			// the tree itself does not build: nothing can be decided
			cr.undecided = append(cr.undecided, fmt.Sprintf("UNDECIDED property=%s obligation=build reason=%s", cr.prop, strings.ReplaceAll(err.Error(), "\n", " | ")))
			return
		}
		// mockery failed on the corpus. If it failed while formatting the rendered text, the template produced
		// something that is not Go: a violation with a concrete input. Any other failure (configuration,
		// package loading, ...) says nothing about the generated mocks: undecided here, and the business of
		// the checks of the properties that govern those stages.
		if strings.Contains(err.Error(), "formatting mock file") || strings.Contains(err.Error(), "can't format mock file") {
			concrete("instances/generate", "mockery cannot format what the template rendered for the corpus (a valid input): the rendered text is not valid Go", err)
		} else {
			cr.undecided = append(cr.undecided, fmt.Sprintf("UNDECIDED property=%s obligation=instances/generate reason=mockery fails on the corpus before any mock is rendered (not a statement about generated mocks): %s", cr.prop, strings.ReplaceAll(tail(err.Error(), 400), "\n", " | ")))
		}
		return
	}
	pkgs, err := loadTypes(root, variants)
	if err != nil {
		concrete("instances/compile", "the mocks generated for the corpus do not type-check", err)
		return
	}
	var pats []string
	programs := 0
	for _, v := range variants {
		p := pkgs[v.pkg]
		if p == nil {
			cr.undecided = append(cr.undecided, fmt.Sprintf("UNDECIDED property=%s obligation=load-generated reason=package %s missing", cr.prop, v.pkg))
			return
		}
		var text string
		var facts []structFact
		if v.template == "testify" {
			text, facts = testifyContracts(p, v)
		} else {
			text, facts = matryerContracts(p, v)
		}
		os.WriteFile(filepath.Join(root, v.pkg, "zz_verif_contracts.go"), []byte(text), 0o644)
		pats = append(pats, "./"+v.pkg)
		for _, f := range facts {
			cr.obligations++
			res := "proved"
			if f.ok {
				cr.discharged++
			} else {
				res = "refuted"
				dir := filepath.Join(outDir(), "replays", cr.prop)
				os.MkdirAll(dir, 0o755)
				path := filepath.Join(dir, sanitize(f.name)+".txt")
				os.WriteFile(path, []byte(fmt.Sprintf("property: %s\nfailed obligation: %s (structure of the generated mock, decided by go/types)\nrequired: %s\nfailing input: the corpus interface named in the obligation (/verif/corpus/m/ifaces.go), template-data %s\n", cr.prop, f.name, f.why, v.templateData)), 0o644)
				cr.violations = append(cr.violations, fmt.Sprintf("VIOLATION property=%s replay=%s obligation=%s", cr.prop, path, f.name))
			}
			cr.per = append(cr.per, perObl{Name: f.name, Kind: "structure", Result: res, Backend: "go/types"})
		}
		programs++
	}
	w, err := symex.Load(root, pats, nil)
	if err != nil {
		cr.undecided = append(cr.undecided, fmt.Sprintf("UNDECIDED property=%s obligation=load-generated reason=%v", cr.prop, err))
		return
	}
	cr.extra["instances"] = map[string]any{"corpus": "/verif/corpus/m/ifaces.go", "variants": len(variants), "generated_packages": pats}
	contractPhase(cr, w, update)
}

// ---- testify-style mocks (C03; C05: the generated code writes no state of its own) ----

var testifyVariants = []instVariant{
	{pkg: "t", template: "testify", templateData: "{unroll-variadic: true}", unroll: true},
	{pkg: "tn", template: "testify", templateData: "{unroll-variadic: false}"},
}

// retLocal finds, in the generated method, the local that receives the result of Called.
func retLocal(p *packages.Package, fn *types.Func) string {
	for _, f := range p.Syntax {
		for _, d := range f.Decls {
			fd, ok := d.(*ast.FuncDecl)
			if !ok || fd.Body == nil || p.TypesInfo.Defs[fd.Name] != fn {
				continue
			}
			name := ""
			ast.Inspect(fd.Body, func(n ast.Node) bool {
				as, ok := n.(*ast.AssignStmt)
				if !ok || as.Tok != token.DEFINE || len(as.Lhs) != 1 || len(as.Rhs) != 1 || name != "" {
					return true
				}
				lhs, ok := as.Lhs[0].(*ast.Ident)
				if !ok {
					return true
				}
				switch r := as.Rhs[0].(type) {
				case *ast.Ident:
					if r.Name == "tmpRet" {
						name = lhs.Name
					}
				case *ast.CallExpr:
					if se, ok := r.Fun.(*ast.SelectorExpr); ok && se.Sel.Name == "Called" {
						name = lhs.Name
					}
				}
				return true
			})
			return name
		}
	}
	return ""
}

func hasLoop(p *packages.Package, fn *types.Func) bool {
	found := false
	for _, f := range p.Syntax {
		for _, d := range f.Decls {
			fd, ok := d.(*ast.FuncDecl)
			if !ok || fd.Body == nil || p.TypesInfo.Defs[fd.Name] != fn {
				continue
			}
			ast.Inspect(fd.Body, func(n ast.Node) bool {
				switch n.(type) {
				case *ast.RangeStmt, *ast.ForStmt:
					found = true
				case *ast.FuncLit:
					return false
				}
				return true
			})
		}
	}
	return found
}

func testifyContracts(p *packages.Package, v instVariant) (string, []structFact) {
	var b strings.Builder
	var facts []structFact
	fmt.Fprintf(&b, "//go:build verif\n\n// Contracts instantiated by govc from the source interfaces' signatures (DESIGN.md 5.4). Not hand-written.\npackage %s\n\n", p.Name)
	scope := p.Types.Scope()
	names := scope.Names()
	sort.Strings(names)
	for _, n := range names {
		tn, ok := scope.Lookup(n).(*types.TypeName)
		if !ok || strings.HasPrefix(n, "Mock") {
			continue
		}
		iface, ok := tn.Type().Underlying().(*types.Interface)
		if !ok {
			continue
		}
		fact := func(name string, ok bool, why string) {
			facts = append(facts, structFact{p.Name + ".Mock" + n + "/" + name, ok, why})
		}
		mockTN, _ := scope.Lookup("Mock" + n).(*types.TypeName)
		if mockTN == nil {
			fact("exists", false, "no type Mock"+n+" was generated")
			continue
		}
		mockS, _ := mockTN.Type().Underlying().(*types.Struct)
		// "the generated code adds no unsynchronised shared state on top of testify's": the mock is the embedded mock.Mock and nothing else
		onlyMock := mockS != nil && mockS.NumFields() == 1 && mockS.Field(0).Embedded() && types.TypeString(mockS.Field(0).Type(), nil) == "github.com/stretchr/testify/mock.Mock"
		fact("only-embedded-mock", onlyMock, "the mock struct consists of the embedded testify mock.Mock only")
		expTN, _ := scope.Lookup("Mock" + n + "_Expecter").(*types.TypeName)
		fact("expecter", expTN != nil, "type Mock"+n+"_Expecter exists")
		if expTN == nil || mockS == nil {
			continue
		}
		mset := types.NewMethodSet(types.NewPointer(mockTN.Type()))
		eset := types.NewMethodSet(types.NewPointer(expTN.Type()))
		var methods []*types.Func
		for i := 0; i < iface.NumMethods(); i++ {
			methods = append(methods, iface.Method(i))
		}
		sort.Slice(methods, func(i, j int) bool { return methods[i].Name() < methods[j].Name() })
		for _, m := range methods {
			name := m.Name()
			srcSig := m.Type().(*types.Signature)
			sel := mset.Lookup(p.Types, name)
			if sel == nil {
				fact(name+"/method", false, "the mock has no method "+name)
				continue
			}
			gen := sel.Obj().(*types.Func)
			genSig := gen.Type().(*types.Signature)
			okShape := genSig.Params().Len() == srcSig.Params().Len() && genSig.Results().Len() == srcSig.Results().Len() && genSig.Variadic() == srcSig.Variadic()
			fact(name+"/arity", okShape, "same number of parameters and results, same variadic-ness as "+n+"."+name)
			if !okShape {
				continue
			}
			np, nr := genSig.Params().Len(), genSig.Results().Len()
			recv := "_mock"
			if r := genSig.Recv(); r != nil && r.Name() != "" {
				recv = r.Name()
			}
			var pack string
			boxed := func(k int) string { return fmt.Sprintf("$0[%d] == box(param(%d))", k, k) }
			join := func(xs []string) string {
				if len(xs) == 0 {
					return "true"
				}
				return strings.Join(xs, " && ")
			}
			switch {
			case !genSig.Variadic():
				cs := []string{fmt.Sprintf("len($0) == %d", np)}
				for k := 0; k < np; k++ {
					cs = append(cs, boxed(k))
				}
				pack = join(cs)
			case !v.unroll:
				full := []string{fmt.Sprintf("len($0) == %d", np)}
				for k := 0; k < np; k++ {
					full = append(full, boxed(k))
				}
				short := []string{fmt.Sprintf("len($0) == %d", np-1)}
				for k := 0; k < np-1; k++ {
					short = append(short, boxed(k))
				}
				pack = fmt.Sprintf("(len(param(%d)) > 0 ==> %s) && (len(param(%d)) == 0 ==> %s)", np-1, join(full), np-1, join(short))
			default:
				cs := []string{fmt.Sprintf("len($0) == %d + len(param(%d))", np-1, np-1)}
				for k := 0; k < np-1; k++ {
					cs = append(cs, boxed(k))
				}
				cs = append(cs, fmt.Sprintf("(forall j int :: 0 <= j && j < len(param(%d)) ==> $0[%d + j] == box(param(%d)[j]))", np-1, np-1, np-1))
				cs = append(cs, fmt.Sprintf("!shares($0, param(%d))", np-1))
				pack = join(cs)
			}
			fmt.Fprintf(&b, "// %s.%s: hands exactly the call's arguments to Called, once; every result is the configured value at its\n// position or what a configured provider function returned for exactly the arguments; writes no state of its own.\n", n, name)
			fmt.Fprintf(&b, "//@ func (*Mock%s).%s props=C03,C05\n", n, name)
			fmt.Fprintf(&b, "//@   safety callbacks-exempt\n//@   safety type-assert-may-panic\n//@   assigns nothing\n")
			fmt.Fprintf(&b, "//@   site#called Called: $recv == %s && %s\n", recv, pack)
			fmt.Fprintf(&b, "//@   returns#once called(\"Called\") == 1\n")
			if genSig.Variadic() && v.unroll && hasLoop(p, gen) {
				fmt.Fprintf(&b, "//@   loop 0: invariant len(_va) == len(param(%d)) && !shares(_va, param(%d)) && (forall j int :: 0 <= j && j < $i ==> _va[j] == box(param(%d)[j]))\n", np-1, np-1, np-1)
			}
			if nr > 0 {
				ret := retLocal(p, gen)
				fact(name+"/ret-local", ret != "", "the result of Called is bound to a local")
				if ret == "" {
					continue
				}
				fmt.Fprintf(&b, "//@   panics_if len(%s) == 0\n", ret)
				fmt.Fprintf(&b, "//@   returns#haveret len(%s) > 0\n", ret)
				var as []string
				for k := 0; k < np; k++ {
					as = append(as, fmt.Sprintf("$%d == param(%d)", k, k))
				}
				fmt.Fprintf(&b, "//@   site#args $apply: %s\n", join(as))
				fmt.Fprintf(&b, "//@   site#fromret $apply: exists i int :: 0 <= i && i < len(%s) && box($fn) == %s[i]\n", ret, ret)
				for i := 0; i < nr; i++ {
					rn := "result"
					if nr > 1 {
						rn = fmt.Sprintf("result%d", i)
					}
					fmt.Fprintf(&b, "//@   returns#result%d (%s[%d] != nil && box(%s) == %s[%d]) || (%s[%d] == nil && iszero(%s)) || produced(%s)\n", i, ret, i, rn, ret, i, ret, i, rn, rn)
				}
			}
			fmt.Fprintf(&b, "\n")
			// the typed wrappers of the expectation: Run hands the callback exactly the call's arguments,
			// Return/RunAndReturn hand testify exactly the values / the function given
			if callTN, _ := scope.Lookup("Mock" + n + "_" + name + "_Call").(*types.TypeName); callTN != nil {
				cset := types.NewMethodSet(types.NewPointer(callTN.Type()))
				ct := "(*Mock" + n + "_" + name + "_Call)"
				if cset.Lookup(p.Types, "Run") != nil {
					var req, fw []string
					nfix := np
					if genSig.Variadic() {
						nfix = np - 1
						req = append(req, fmt.Sprintf("len(args) >= %d", nfix))
					} else {
						req = append(req, fmt.Sprintf("len(args) == %d", np))
					}
					fw = append(fw, "$fn == run")
					for k := 0; k < nfix; k++ {
						req = append(req, fmt.Sprintf("argfor(args[%d], run, %d)", k, k))
						fw = append(fw, fmt.Sprintf("box($%d) == args[%d]", k, k))
					}
					fmt.Fprintf(&b, "// %s.%s, Run: the callback receives exactly the arguments of the call, position by position, once.\n", n, name)
					fmt.Fprintf(&b, "//@ closure %s.Run#0 props=C03\n", ct)
					if genSig.Variadic() {
						req = append(req, fmt.Sprintf("(forall j int :: %d <= j && j < len(args) ==> args[j] == nil || argforelem(args[j], run, %d))", nfix, nfix))
						fw = append(fw, fmt.Sprintf("len($%d) == len(args) - %d", nfix, nfix))
						fw = append(fw, fmt.Sprintf("(forall k int :: 0 <= k && k < len($%d) ==> (args[%d + k] != nil ==> box($%d[k]) == args[%d + k]) && (args[%d + k] == nil ==> iszero($%d[k])))", nfix, nfix, nfix, nfix, nfix, nfix))
						fmt.Fprintf(&b, "//@   loop 0: invariant len(variadicArgs) == len(args) - %d && (forall k int :: 0 <= k && k < $i ==> (args[%d + k] != nil ==> box(variadicArgs[k]) == args[%d + k]) && (args[%d + k] == nil ==> iszero(variadicArgs[k]))) && (forall k int :: $i <= k && k < len(variadicArgs) ==> iszero(variadicArgs[k]))\n", nfix, nfix, nfix, nfix)
					}
					req = append(req, "run != nil")
					fmt.Fprintf(&b, "//@   safety box-inverse\n")
					fmt.Fprintf(&b, "//@   requires %s\n", join(req))
					fmt.Fprintf(&b, "//@   site#args $apply: %s\n", join(fw))
					fmt.Fprintf(&b, "//@   returns#once applied() == old(applied()) + 1\n\n")
				}
				if cset.Lookup(p.Types, "Return") != nil && nr > 0 {
					cs := []string{fmt.Sprintf("len($0) == %d", nr)}
					for i := 0; i < nr; i++ {
						cs = append(cs, fmt.Sprintf("$0[%d] == box(param(%d))", i, i))
					}
					fmt.Fprintf(&b, "//@ func %s.Return props=C03\n//@   site#values Return: %s\n//@   returns#once called(\"Return\") == 1\n\n", ct, join(cs))
				}
				if cset.Lookup(p.Types, "RunAndReturn") != nil {
					if nr > 0 {
						fmt.Fprintf(&b, "//@ func %s.RunAndReturn props=C03\n//@   site#provider Return: len($0) == 1 && $0[0] == box(param(0))\n//@   returns#once called(\"Return\") == 1\n\n", ct)
					} else {
						fmt.Fprintf(&b, "//@ func %s.RunAndReturn props=C03\n//@   site#callback Run@0: $0 == param(0)\n\n", ct)
					}
				}
			} else {
				fact(name+"/call-type", false, "type Mock"+n+"_"+name+"_Call exists")
			}
			// the expecter method registers the expectation under the method's name with the arguments in order
			if es := eset.Lookup(p.Types, name); es != nil {
				esig := es.Obj().(*types.Func).Type().(*types.Signature)
				okE := esig.Params().Len() == np && esig.Variadic() == genSig.Variadic()
				fact(name+"/expecter-arity", okE, "the expecter method takes one (interface{}) parameter per parameter of the method")
				if okE {
					var cs []string
					if !genSig.Variadic() {
						cs = append(cs, fmt.Sprintf("len($1) == %d", np))
						for k := 0; k < np; k++ {
							cs = append(cs, fmt.Sprintf("$1[%d] == param(%d)", k, k))
						}
					} else {
						cs = append(cs, fmt.Sprintf("len($1) == %d + len(param(%d))", np-1, np-1))
						for k := 0; k < np-1; k++ {
							cs = append(cs, fmt.Sprintf("$1[%d] == param(%d)", k, k))
						}
						cs = append(cs, fmt.Sprintf("(forall j int :: 0 <= j && j < len(param(%d)) ==> $1[%d + j] == param(%d)[j])", np-1, np-1, np-1))
					}
					fmt.Fprintf(&b, "//@ func (*Mock%s_Expecter).%s props=C03\n", n, name)
					fmt.Fprintf(&b, "//@   site#on On: $0 == %q && %s\n", name, join(cs))
					fmt.Fprintf(&b, "//@   returns#once called(\"On\") == 1\n\n")
				}
			} else {
				fact(name+"/expecter-method", false, "the expecter has no method "+name)
			}
		}
	}
	return b.String(), facts
}

// ---- C01 stand-in: the generated files of the corpus are valid Go (bounded: the corpus) ----

type badShape struct {
	file, template, templateData, what string
	formatter                          string
	outOfPkg                           bool
	name                               string
}

// shapes for which a built-in template is known to produce a file that does not compile (known findings of C01)
var badShapes = []badShape{
	{file: "method_named_mock.go", template: "testify", templateData: "{unroll-variadic: true}", what: "a method named Mock collides with the embedded testify mock.Mock field"},
	{file: "comparable_constraint.go", template: "matryer", templateData: "{skip-ensure: false}", what: "the matryer ensure line instantiates the mock with the constraint comparable itself"},
	{file: "simple.go", template: "matryer", templateData: "{skip-ensure: false}", formatter: "gofmt", outOfPkg: true, name: "outofpkg_gofmt", what: "matryer, out-of-package, formatter gofmt: unused import fmt and unimported source package in the ensure line"},
}

// compilePhase: bounded stand-in for "every generated file compiles in its destination package":
// the mocks of the corpus, generated from the working tree with both templates, type-check.
// Not a proof and not counted among the obligations; known-bad shapes are reported as known findings.
func compilePhase(cr *checkResult, _ *symex.World) {
	env, err := newInstEnv()
	if env != nil {
		defer env.close()
	}
	if err != nil {
		cr.undecided = append(cr.undecided, fmt.Sprintf("UNDECIDED property=%s obligation=build reason=%s", cr.prop, strings.ReplaceAll(err.Error(), "\n", " | ")))
		return
	}
	known := loadKnownFindings()
	type outcome struct {
		Name, Result string
	}
	var outs []outcome
	try := func(name, input string, vs []instVariant) {
		root, err := env.generate(vs)
		if err != nil && !strings.Contains(err.Error(), "formatting mock file") && !strings.Contains(err.Error(), "can't format mock file") {
			if matchKnown(known, cr.prop, name) == nil {
				// mockery failed before rendering anything: not a statement about generated files
				cr.undecided = append(cr.undecided, fmt.Sprintf("UNDECIDED property=%s obligation=%s reason=mockery fails on this input before any file is rendered: %s", cr.prop, name, strings.ReplaceAll(tail(err.Error(), 300), "\n", " | ")))
				outs = append(outs, outcome{name, "undecided"})
				return
			}
		}
		if err == nil {
			_, err = loadTypes(root, vs)
		}
		if err == nil {
			outs = append(outs, outcome{name, "compiles"})
			return
		}
		if kf := matchKnown(known, cr.prop, name); kf != nil {
			cr.known = append(cr.known, fmt.Sprintf("KNOWN-FINDING: property=%s %s: %s (witness: %s)", cr.prop, name, kf.Symptom, kf.Witness))
			outs = append(outs, outcome{name, "known finding"})
			return
		}
		dir := filepath.Join(outDir(), "replays", cr.prop)
		os.MkdirAll(dir, 0o755)
		path := filepath.Join(dir, sanitize(name)+".txt")
		os.WriteFile(path, []byte(fmt.Sprintf("property: %s\nfailed obligation: %s (bounded stand-in: the generated mocks of the corpus are valid Go)\nfailing input: %s, mocked with 'all: true' (formatter goimports unless said otherwise)\nreplay: build mockery from the tree, copy the file into a scratch module (stdlib only), run mockery with that configuration, then 'go build ./...'\noutput:\n%s\n", cr.prop, name, input, err.Error())), 0o644)
		cr.violations = append(cr.violations, fmt.Sprintf("VIOLATION property=%s replay=%s obligation=%s", cr.prop, path, name))
		outs = append(outs, outcome{name, "FAILS"})
	}
	try("instances/compile/corpus.matryer", "/verif/corpus/m/ifaces.go with template matryer", []instVariant{{pkg: "m", template: "matryer", templateData: "{skip-ensure: false, with-resets: true}"}})
	try("instances/compile/corpus.testify", "/verif/corpus/m/ifaces.go with template testify", []instVariant{{pkg: "t", template: "testify", templateData: "{unroll-variadic: true}"}, {pkg: "tn", template: "testify", templateData: "{unroll-variadic: false}"}})
	try("instances/compile/corpus.matryer.outofpkg", "/verif/corpus/m/ifaces.go with template matryer, generated into a sub-directory as package mocks", []instVariant{{pkg: "mo", template: "matryer", templateData: "{skip-ensure: false}", outOfPkg: true}})
	try("instances/compile/corpus.testify.outofpkg", "/verif/corpus/m/ifaces.go with template testify, generated into a sub-directory as package mocks", []instVariant{{pkg: "to", template: "testify", templateData: "{unroll-variadic: true}", outOfPkg: true}})
	for _, b := range badShapes {
		shape := strings.TrimSuffix(b.file, ".go")
		if b.name != "" {
			shape = b.name
		}
		name := "instances/compile/bad." + shape + "." + b.template
		input := "/verif/corpus/bad/" + b.file + " with template " + b.template + " and template-data " + b.templateData
		if b.formatter != "" {
			input += ", formatter " + b.formatter
		}
		if b.outOfPkg {
			input += ", generated into a sub-directory as package mocks"
		}
		try(name, input, []instVariant{{pkg: "b", template: b.template, templateData: b.templateData, source: "bad/" + b.file, srcPkg: "bad", formatter: b.formatter, outOfPkg: b.outOfPkg}})
	}
	cr.extra["bounded_standin_generated_files_compile"] = map[string]any{
		"bound":   "the corpus /verif/corpus/m/ifaces.go (8 interfaces) x {matryer, testify unrolled, testify not unrolled} plus the known-bad shapes of /verif/corpus/bad; NOT a proof, not counted among the obligations",
		"results": outs,
	}
}

func isInterfaceType(t types.Type) bool {
	if _, tp := t.(*types.TypeParam); tp {
		return false
	}
	_, ok := t.Underlying().(*types.Interface)
	return ok
}

// ---- C02 instance facts: every generated mock of the corpus implements its interface (go/types) ----

// implementsPhase generates the corpus with both templates and asks go/types whether *Mock implements the
// source interface (non-generic interfaces; generic ones are covered by the matryer ensure line and the
// type-parameter fact of C04). Decided per instance, with the corpus interface as the concrete input.
func implementsPhase(cr *checkResult, _ *symex.World) {
	env, err := newInstEnv()
	if env != nil {
		defer env.close()
	}
	if err != nil {
		cr.undecided = append(cr.undecided, fmt.Sprintf("UNDECIDED property=%s obligation=build reason=%s", cr.prop, strings.ReplaceAll(err.Error(), "\n", " | ")))
		return
	}
	variants := []instVariant{
		{pkg: "m", template: "matryer", templateData: "{skip-ensure: true}"},
		{pkg: "t", template: "testify", templateData: "{unroll-variadic: true}", unroll: true},
		{pkg: "tn", template: "testify", templateData: "{unroll-variadic: false}"},
	}
	root, err := env.generate(variants)
	var pkgs map[string]*packages.Package
	if err == nil {
		pkgs, err = loadTypes(root, variants)
	}
	if err != nil {
		cr.undecided = append(cr.undecided, fmt.Sprintf("UNDECIDED property=%s obligation=instances reason=the corpus could not be generated or does not type-check (reported by C01/C03/C04): %s", cr.prop, strings.ReplaceAll(tail(err.Error(), 300), "\n", " | ")))
		return
	}
	for _, v := range variants {
		p := pkgs[v.pkg]
		if p == nil {
			continue
		}
		prefix := "Moq"
		if v.template == "testify" {
			prefix = "Mock"
		}
		scope := p.Types.Scope()
		names := scope.Names()
		sort.Strings(names)
		for _, n := range names {
			tn, ok := scope.Lookup(n).(*types.TypeName)
			if !ok || strings.HasPrefix(n, prefix) {
				continue
			}
			iface, ok := tn.Type().Underlying().(*types.Interface)
			if !ok {
				continue
			}
			if named, ok := tn.Type().(*types.Named); ok && named.TypeParams().Len() > 0 {
				continue
			}
			name := fmt.Sprintf("instances/implements/%s.%s%s", v.pkg, prefix, n)
			mock, _ := scope.Lookup(prefix + n).(*types.TypeName)
			ok = mock != nil && types.Implements(types.NewPointer(mock.Type()), iface)
			cr.obligations++
			res := "proved"
			if ok {
				cr.discharged++
			} else {
				res = "refuted"
				dir := filepath.Join(outDir(), "replays", cr.prop)
				os.MkdirAll(dir, 0o755)
				path := filepath.Join(dir, sanitize(name)+".txt")
				why := "missing method or wrong signature"
				if mock != nil {
					if m, wrong := types.MissingMethod(types.NewPointer(mock.Type()), iface, true); m != nil {
						why = fmt.Sprintf("method %s (wrong signature: %v)", m.Name(), wrong)
					}
				} else {
					why = "no type " + prefix + n + " was generated"
				}
				os.WriteFile(path, []byte(fmt.Sprintf("property: %s\nfailed obligation: %s (decided by go/types on the generated instance)\n*%s%s does not implement %s: %s\nfailing input: interface %s of /verif/corpus/m/ifaces.go, template %s, template-data %s\n", cr.prop, name, prefix, n, n, why, n, v.template, v.templateData)), 0o644)
				cr.violations = append(cr.violations, fmt.Sprintf("VIOLATION property=%s replay=%s obligation=%s", cr.prop, path, name))
			}
			cr.per = append(cr.per, perObl{Name: name, Kind: "implements", Result: res, Backend: "go/types"})
		}
	}
}
