package driver

// Instance-wise verification of the generator's output (DESIGN.md 5).
//
// The templates are text; no contract can be attached to them. What is verified is what they
// produce: on every run a fresh mockery is built from /repo's working tree and run over the fixed
// corpus of interfaces in /verif/corpus (copied to a scratch directory outside /repo and /verif);
// for every method of every corpus interface a contract is instantiated mechanically from the
// SOURCE interface's signature and the property statement, written next to the generated file, and
// the generated functions are verified against it by the same engine as the repository's own code.
// Over argument values, call histories and (through the lock discipline) schedules this is a proof
// for each instance; over interfaces it is the corpus, a sample, and is labelled so.

import (
	"fmt"
	"go/types"
	"os"
	"os/exec"
	"path/filepath"
	"sort"
	"strings"

	"golang.org/x/tools/go/packages"

	"verif/engine/symex"
)

type instVariant struct {
	pkg          string // package (and directory) name inside the scratch corpus module
	template     string
	templateData string // YAML flow mapping
	stub         bool
	resets       bool
}

var matryerVariants = []instVariant{
	{pkg: "m", template: "matryer", templateData: "{skip-ensure: false, with-resets: true}", resets: true},
	{pkg: "ms", template: "matryer", templateData: "{skip-ensure: true, stub-impl: true}", stub: true},
}

const corpusModule = "example.com/corpus"

func cleanEnv(extra ...string) []string {
	var env []string
	for _, e := range os.Environ() {
		if strings.HasPrefix(e, "GOFLAGS=") || strings.HasPrefix(e, "GOSUMDB=") || strings.HasPrefix(e, "GOTOOLCHAIN=") ||
			strings.HasPrefix(e, "MOCKERY_") || strings.HasPrefix(e, "GOWORK=") {
			continue
		}
		env = append(env, e)
	}
	return append(append(env, "GOPROXY=off"), extra...)
}

// generateInstances builds mockery from the working tree and generates the mocks of the corpus for
// the given variants. It returns the scratch directory (to be removed by the caller) and the corpus root.
func generateInstances(variants []instVariant) (scratch, root string, err error) {
	base := os.Getenv("VERIF_SCRATCH")
	if base == "" {
		base = "/var/tmp"
	}
	scratch, err = os.MkdirTemp(base, "govc-inst-")
	if err != nil {
		return "", "", err
	}
	bin := filepath.Join(scratch, "mockery")
	cmd := exec.Command("go", "build", "-o", bin, ".")
	cmd.Dir = repoDir()
	cmd.Env = cleanEnv()
	if out, e := cmd.CombinedOutput(); e != nil {
		return scratch, "", fmt.Errorf("building mockery from the working tree: %v\n%s", e, out)
	}
	root = filepath.Join(scratch, "corpus")
	os.MkdirAll(root, 0o755)
	src := filepath.Join(verifDir, "corpus")
	gomod, _ := os.ReadFile(filepath.Join(src, "go.mod"))
	os.WriteFile(filepath.Join(root, "go.mod"), gomod, 0o644)
	ifaces, e := os.ReadFile(filepath.Join(src, "m", "ifaces.go"))
	if e != nil {
		return scratch, root, e
	}
	var y strings.Builder
	y.WriteString("formatter: goimports\nforce-file-write: true\ndir: \"{{.InterfaceDir}}\"\nfilename: \"mocks_gen.go\"\npkgname: \"{{.SrcPackageName}}\"\nstructname: \"Moq{{.InterfaceName}}\"\npackages:\n")
	for _, v := range variants {
		dir := filepath.Join(root, v.pkg)
		os.MkdirAll(dir, 0o755)
		// the corpus source, with only its package clause renamed (mechanical)
		text := strings.Replace(string(ifaces), "\npackage m\n", "\npackage "+v.pkg+"\n", 1)
		os.WriteFile(filepath.Join(dir, "ifaces.go"), []byte(text), 0o644)
		fmt.Fprintf(&y, "  %s/%s:\n    config:\n      all: true\n      template: %s\n      template-data: %s\n", corpusModule, v.pkg, v.template, v.templateData)
	}
	os.WriteFile(filepath.Join(root, ".mockery.yml"), []byte(y.String()), 0o644)
	run := exec.Command(bin, "--config", filepath.Join(root, ".mockery.yml"))
	run.Dir = root
	run.Env = cleanEnv("GOFLAGS=-mod=mod", "GOWORK=off")
	if out, e := run.CombinedOutput(); e != nil {
		return scratch, root, fmt.Errorf("mockery failed on the corpus: %v\n%s", e, tail(string(out), 2000))
	}
	return scratch, root, nil
}

func tail(s string, n int) string {
	if len(s) > n {
		return s[len(s)-n:]
	}
	return s
}

// loadTypes loads the generated packages (types only) to instantiate the contract schemas.
func loadTypes(root string, variants []instVariant) (map[string]*packages.Package, error) {
	var pats []string
	for _, v := range variants {
		pats = append(pats, "./"+v.pkg)
	}
	cfg := &packages.Config{Mode: packages.NeedName | packages.NeedTypes | packages.NeedTypesInfo | packages.NeedSyntax | packages.NeedFiles | packages.NeedImports | packages.NeedDeps,
		Dir: root, Env: cleanEnv("GOFLAGS=-mod=mod", "GOWORK=off")}
	pkgs, err := packages.Load(cfg, pats...)
	if err != nil {
		return nil, err
	}
	out := map[string]*packages.Package{}
	for _, p := range pkgs {
		if len(p.Errors) > 0 {
			var msgs []string
			for _, e := range p.Errors {
				msgs = append(msgs, e.Error())
			}
			return nil, fmt.Errorf("generated package %s does not type-check:\n%s", p.PkgPath, strings.Join(msgs, "\n"))
		}
		out[p.Name] = p
	}
	return out, nil
}

// structural facts decided by go/types (like the direct bindings of C16)
type structFact struct {
	name string
	ok   bool
	why  string
}

// matryerContracts instantiates the matryer schema for one generated package.
func matryerContracts(p *packages.Package, v instVariant) (string, []structFact) {
	var b strings.Builder
	var facts []structFact
	fmt.Fprintf(&b, "//go:build verif\n\n// Contracts instantiated by govc from the source interfaces' signatures (DESIGN.md 5.2, 5.3). Not hand-written.\npackage %s\n\n", p.Name)
	scope := p.Types.Scope()
	names := scope.Names()
	sort.Strings(names)
	qual := types.RelativeTo(p.Types)
	for _, n := range names {
		tn, ok := scope.Lookup(n).(*types.TypeName)
		if !ok || strings.HasPrefix(n, "Moq") {
			continue
		}
		iface, ok := tn.Type().Underlying().(*types.Interface)
		if !ok {
			continue
		}
		mockTN, _ := scope.Lookup("Moq" + n).(*types.TypeName)
		fact := func(name string, ok bool, why string) {
			facts = append(facts, structFact{p.Name + ".Moq" + n + "/" + name, ok, why})
		}
		if mockTN == nil {
			fact("exists", false, "no type Moq"+n+" was generated")
			continue
		}
		mockT := mockTN.Type()
		mockS, ok := mockT.Underlying().(*types.Struct)
		if !ok {
			fact("exists", false, "Moq"+n+" is not a struct")
			continue
		}
		field := func(s *types.Struct, name string) *types.Var {
			for i := 0; i < s.NumFields(); i++ {
				if s.Field(i).Name() == name {
					return s.Field(i)
				}
			}
			return nil
		}
		// a generic mock is parameterised exactly like its interface: same number of type parameters, same constraints
		if named, ok := tn.Type().(*types.Named); ok {
			mn, _ := mockT.(*types.Named)
			okTP := mn != nil && mn.TypeParams().Len() == named.TypeParams().Len()
			why := "same type parameters and constraints as " + n
			if okTP {
				for i := 0; i < named.TypeParams().Len(); i++ {
					a := types.TypeString(named.TypeParams().At(i).Constraint(), qual)
					c := types.TypeString(mn.TypeParams().At(i).Constraint(), qual)
					if a != c {
						okTP = false
						why = fmt.Sprintf("type parameter %d of Moq%s is constrained by %s, the interface's by %s", i, n, c, a)
					}
				}
			}
			if named.TypeParams().Len() > 0 || !okTP {
				fact("type-parameters", okTP, why)
			}
		}
		// the method set of the source interface (embedded interfaces included), in sorted order
		var methods []*types.Func
		for i := 0; i < iface.NumMethods(); i++ {
			methods = append(methods, iface.Method(i))
		}
		sort.Slice(methods, func(i, j int) bool { return methods[i].Name() < methods[j].Name() })
		callsF := field(mockS, "calls")
		var callsS *types.Struct
		if callsF != nil {
			callsS, _ = callsF.Type().Underlying().(*types.Struct)
		}
		fact("calls-field", callsS != nil, "the mock has a struct field 'calls'")
		if callsS == nil {
			continue
		}
		fact("calls-one-per-method", callsS.NumFields() == len(methods), fmt.Sprintf("calls has %d fields for %d methods", callsS.NumFields(), len(methods)))
		mset := types.NewMethodSet(types.NewPointer(mockT))
		type minfo struct {
			name     string
			gen      *types.Func
			rec      *types.Struct
			params   []string
			nres     int
			resT     []types.Type
			variadic bool
		}
		var infos []minfo
		for _, m := range methods {
			name := m.Name()
			srcSig := m.Type().(*types.Signature)
			sel := mset.Lookup(p.Types, name)
			if sel == nil {
				fact(name+"/method", false, "the mock has no method "+name)
				continue
			}
			gen := sel.Obj().(*types.Func)
			genSig := gen.Type().(*types.Signature)
			// same shape as the source method (the compiler's `var _ I = &MoqI{}` line checks identity when skip-ensure is off)
			fact(name+"/arity", genSig.Params().Len() == srcSig.Params().Len() && genSig.Results().Len() == srcSig.Results().Len() && genSig.Variadic() == srcSig.Variadic(),
				"same number of parameters and results, same variadic-ness as "+n+"."+name)
			fn := field(mockS, name+"Func")
			okFn := false
			if fn != nil {
				if fs, isSig := fn.Type().Underlying().(*types.Signature); isSig {
					okFn = types.TypeString(fs, qual) == types.TypeString(types.NewSignatureType(nil, nil, nil, genSig.Params(), genSig.Results(), genSig.Variadic()), qual)
				}
			}
			fact(name+"/func-field", okFn, "field "+name+"Func has exactly the method's signature")
			lk := field(mockS, "lock"+name)
			fact(name+"/lock-field", lk != nil && types.TypeString(lk.Type(), nil) == "sync.RWMutex", "field lock"+name+" is a sync.RWMutex")
			var rec *types.Struct
			if cf := field(callsS, name); cf != nil {
				if sl, isSl := cf.Type().Underlying().(*types.Slice); isSl {
					rec, _ = sl.Elem().Underlying().(*types.Struct)
				}
			}
			okRec := rec != nil && rec.NumFields() == genSig.Params().Len()
			if okRec {
				for i := 0; i < rec.NumFields(); i++ {
					// (compared as text: the receiver of a generic mock's method re-declares the type parameters)
					if types.TypeString(rec.Field(i).Type(), qual) != types.TypeString(genSig.Params().At(i).Type(), qual) {
						okRec = false
					}
				}
			}
			fact(name+"/record", okRec, "calls."+name+" is a slice of structs with one field per parameter, in parameter order, of the parameter's type")
			if !okRec || !okFn || lk == nil {
				continue
			}
			mi := minfo{name: name, gen: gen, rec: rec, nres: genSig.Results().Len(), variadic: genSig.Variadic()}
			for i := 0; i < genSig.Params().Len(); i++ {
				mi.params = append(mi.params, genSig.Params().At(i).Name())
			}
			for i := 0; i < genSig.Results().Len(); i++ {
				mi.resT = append(mi.resT, genSig.Results().At(i).Type())
			}
			infos = append(infos, mi)
		}
		recv := "mock"
		target := func(m string) string { return fmt.Sprintf("(*Moq%s).%s", n, m) }
		for _, mi := range infos {
			if r := mi.gen.Type().(*types.Signature).Recv(); r != nil && r.Name() != "" {
				recv = r.Name()
			}
			loc := recv + ".calls." + mi.name
			lock := recv + ".lock" + mi.name
			fn := recv + "." + mi.name + "Func"
			// record == arguments, field by field in parameter order
			var recEq []string
			for i, pn := range mi.params {
				recEq = append(recEq, fmt.Sprintf("%s[old(len(%s))].%s == %s", loc, loc, mi.rec.Field(i).Name(), pn))
			}
			recorded := fmt.Sprintf("len(%s) == old(len(%s)) + 1", loc, loc)
			if len(recEq) > 0 {
				recorded += " && " + strings.Join(recEq, " && ")
			}
			prefix := fmt.Sprintf("forall k int :: 0 <= k && k < old(len(%s)) ==> %s[k] == old(%s[k])", loc, loc, loc)
			var others []string
			for _, o := range infos {
				others = append(others, fmt.Sprintf("%s.%sFunc == old(%s.%sFunc)", recv, o.name, recv, o.name))
				if o.name != mi.name {
					others = append(others, fmt.Sprintf("%s.calls.%s == old(%s.calls.%s)", recv, o.name, recv, o.name))
				}
			}
			fwd := []string{"$fn == " + fn}
			for i, pn := range mi.params {
				fwd = append(fwd, fmt.Sprintf("$%d == %s", i, pn))
			}
			resName := func(i int) string {
				if mi.nres == 1 {
					return "result"
				}
				return fmt.Sprintf("result%d", i)
			}
			fmt.Fprintf(&b, "// %s.%s: records the call (one record, the arguments in parameter order, under the method's lock),\n// then forwards to %sFunc exactly once with exactly the arguments and returns exactly its results.\n", n, mi.name, mi.name)
			fmt.Fprintf(&b, "//@ func %s props=C04,C05\n", target(mi.name))
			fmt.Fprintf(&b, "//@   guarded[C05] %s by %s\n", loc, lock)
			if !v.stub {
				fmt.Fprintf(&b, "//@   panics_if %s == nil\n", fn)
			}
			fmt.Fprintf(&b, "//@   site#recorded $apply: %s\n", recorded)
			fmt.Fprintf(&b, "//@   site#prefix $apply: %s\n", prefix)
			fmt.Fprintf(&b, "//@   site#forward $apply: %s\n", strings.Join(fwd, " && "))
			fmt.Fprintf(&b, "//@   site#nothingelse $apply: %s\n", strings.Join(others, " && "))
			fmt.Fprintf(&b, "//@   site#unlocked[C05] $apply: !locked(%s)\n", lock)
			if !v.stub {
				fmt.Fprintf(&b, "//@   returns#once applied() == old(applied()) + 1\n")
				for i := 0; i < mi.nres; i++ {
					fmt.Fprintf(&b, "//@   returns#result%d %s == lastres(%d)\n", i, resName(i), i)
				}
			} else {
				fmt.Fprintf(&b, "//@   returns#once (old(%s) != nil ==> applied() == old(applied()) + 1) && (old(%s) == nil ==> applied() == old(applied()))\n", fn, fn)
				for i := 0; i < mi.nres; i++ {
					fmt.Fprintf(&b, "//@   returns#result%d old(%s) != nil ==> %s == lastres(%d)\n", i, fn, resName(i), i)
					fmt.Fprintf(&b, "//@   returns#zero%d old(%s) == nil ==> iszero(%s)\n", i, fn, resName(i))
				}
				fmt.Fprintf(&b, "//@   returns#stubrecorded old(%s) == nil ==> %s\n", fn, recorded)
				fmt.Fprintf(&b, "//@   returns#stubprefix old(%s) == nil ==> (%s)\n", fn, prefix)
				fmt.Fprintf(&b, "//@   returns#stubnothingelse old(%s) == nil ==> %s\n", fn, strings.Join(others, " && "))
			}
			fmt.Fprintf(&b, "//@   returns#released[C05] !locked(%s)\n\n", lock)

			fmt.Fprintf(&b, "//@ func %s props=C04,C05\n", target(mi.name+"Calls"))
			fmt.Fprintf(&b, "//@   guarded[C05] %s by %s\n", loc, lock)
			fmt.Fprintf(&b, "//@   ensures#records result == %s\n", loc)
			fmt.Fprintf(&b, "//@   returns#released[C05] !locked(%s)\n", lock)
			fmt.Fprintf(&b, "//@   assigns nothing\n\n")
			if v.resets {
				fmt.Fprintf(&b, "//@ func %s props=C04,C05\n", target("Reset"+mi.name+"Calls"))
				fmt.Fprintf(&b, "//@   guarded[C05] %s by %s\n", loc, lock)
				fmt.Fprintf(&b, "//@   ensures#emptied len(%s) == 0\n", loc)
				fmt.Fprintf(&b, "//@   returns#released[C05] !locked(%s)\n", lock)
				fmt.Fprintf(&b, "//@   assigns %s\n\n", loc)
			}
		}
		if v.resets && len(infos) > 0 {
			fmt.Fprintf(&b, "//@ func %s props=C04,C05\n", target("ResetCalls"))
			var emptied, assigns []string
			for _, mi := range infos {
				fmt.Fprintf(&b, "//@   guarded[C05] %s.calls.%s by %s.lock%s\n", recv, mi.name, recv, mi.name)
				emptied = append(emptied, fmt.Sprintf("len(%s.calls.%s) == 0", recv, mi.name))
				assigns = append(assigns, fmt.Sprintf("%s.calls.%s", recv, mi.name))
				fmt.Fprintf(&b, "//@   returns#released%s[C05] !locked(%s.lock%s)\n", mi.name, recv, mi.name)
			}
			fmt.Fprintf(&b, "//@   ensures#emptied %s\n", strings.Join(emptied, " && "))
			fmt.Fprintf(&b, "//@   assigns %s.calls\n\n", recv)
			_ = assigns
		}
		// the mock has no methods besides the ones the property names
		allowed := map[string]bool{}
		for _, mi := range infos {
			allowed[mi.name], allowed[mi.name+"Calls"] = true, true
			if v.resets {
				allowed["Reset"+mi.name+"Calls"] = true
			}
		}
		if v.resets {
			allowed["ResetCalls"] = true
		}
		var extra []string
		for i := 0; i < mset.Len(); i++ {
			if !allowed[mset.At(i).Obj().Name()] {
				extra = append(extra, mset.At(i).Obj().Name())
			}
		}
		fact("no-other-methods", len(extra) == 0, "methods besides M, MCalls, ResetMCalls, ResetCalls: "+strings.Join(extra, ","))
	}
	return b.String(), facts
}

// instancePhase: generate, instantiate contracts, verify. kind is "matryer" (C04, C05).
func instancePhase(cr *checkResult, update bool) {
	variants := matryerVariants
	scratch, root, err := generateInstances(variants)
	if scratch != "" {
		defer os.RemoveAll(scratch)
	}
	if err != nil {
		cr.undecided = append(cr.undecided, fmt.Sprintf("UNDECIDED property=%s obligation=generate reason=%s", cr.prop, strings.ReplaceAll(err.Error(), "\n", " | ")))
		return
	}
	pkgs, err := loadTypes(root, variants)
	if err != nil {
		// the generated code of the corpus does not compile: nothing can be verified about it
		cr.undecided = append(cr.undecided, fmt.Sprintf("UNDECIDED property=%s obligation=load-generated reason=%s", cr.prop, strings.ReplaceAll(err.Error(), "\n", " | ")))
		return
	}
	var pats []string
	programs := 0
	for _, v := range variants {
		p := pkgs[v.pkg]
		if p == nil {
			cr.undecided = append(cr.undecided, fmt.Sprintf("UNDECIDED property=%s obligation=load-generated reason=package %s missing", cr.prop, v.pkg))
			return
		}
		text, facts := matryerContracts(p, v)
		os.WriteFile(filepath.Join(root, v.pkg, "zz_verif_contracts.go"), []byte(text), 0o644)
		pats = append(pats, "./"+v.pkg)
		for _, f := range facts {
			cr.obligations++
			res := "proved"
			if f.ok {
				cr.discharged++
			} else {
				res = "refuted"
				dir := filepath.Join(outDir(), "replays", cr.prop)
				os.MkdirAll(dir, 0o755)
				path := filepath.Join(dir, sanitize(f.name)+".txt")
				os.WriteFile(path, []byte(fmt.Sprintf("property: %s\nfailed obligation: %s (structure of the generated mock, decided by go/types)\nrequired: %s\nfailing input: the corpus interface named in the obligation (/verif/corpus/m/ifaces.go), template-data %s\n", cr.prop, f.name, f.why, v.templateData)), 0o644)
				cr.violations = append(cr.violations, fmt.Sprintf("VIOLATION property=%s replay=%s obligation=%s", cr.prop, path, f.name))
			}
			cr.per = append(cr.per, perObl{Name: f.name, Kind: "structure", Result: res, Backend: "go/types"})
		}
		programs++
	}
	w, err := symex.Load(root, pats, nil)
	if err != nil {
		cr.undecided = append(cr.undecided, fmt.Sprintf("UNDECIDED property=%s obligation=load-generated reason=%v", cr.prop, err))
		return
	}
	cr.extra["instances"] = map[string]any{"corpus": "/verif/corpus/m/ifaces.go", "variants": len(variants), "generated_packages": pats}
	contractPhase(cr, w, update)
}
