package driver

import "verif/engine/symex"

// replayOutcome tries to turn a solver model into a concrete input and run the real code.
// It returns whether the failure was confirmed and a text for the replay file.
func replayOutcome(cr *checkResult, o *symex.Outcome) (bool, string) {
	return false, ""
}
