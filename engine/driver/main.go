// Package driver implements the govc command line.
package driver

import "fmt"

func Main(args []string) int {
	if len(args) == 0 {
		fmt.Println("usage: govc check <property> [--tier quick|thorough] | govc debug <func>")
		return 2
	}
	switch args[0] {
	case "debug":
		return debugCmd(args[1:])
	case "scan":
		return scanCmd(args[1:])
	case "check":
		return checkCmd(args[1:])
	}
	fmt.Println("unknown command", args[0])
	return 2
}
