package symex

import (
	"fmt"
	"go/ast"
	"go/types"
)

// Lock discipline (DESIGN.md 5.3). sync.Mutex / sync.RWMutex fields of a struct reached through a
// pointer are modelled by ghost state that survives calls of unknown functions: per lock field one
// array "object -> write lock held" and one "object -> number of read locks held". The protocol
// obligations (no Lock while the same lock is held, no Unlock of a lock that is not held) are safety
// obligations; "guarded L by K" clauses turn every syntactic access to field L into an obligation
// that K is held (for writing: the write lock).

var lockMethods = map[string]string{
	"sync.(*RWMutex).Lock": "Lock", "sync.(*RWMutex).Unlock": "Unlock", "sync.(*RWMutex).RLock": "RLock", "sync.(*RWMutex).RUnlock": "RUnlock",
	"sync.(*Mutex).Lock": "Lock", "sync.(*Mutex).Unlock": "Unlock",
}

// lockOf resolves an expression base.field (base of pointer type) naming a lock to its ghost key and object.
func (x *Exec) lockOf(e ast.Expr, st *State) (key string, obj Term, ok bool) {
	se, isSel := ast.Unparen(e).(*ast.SelectorExpr)
	if !isSel {
		return "", Term{}, false
	}
	sel, found := x.info().Selections[se]
	if !found || sel.Kind() != types.FieldVal || len(sel.Index()) != 1 {
		return "", Term{}, false
	}
	bt := x.subst(types.Unalias(x.typeOf(se.X)))
	p, isPtr := bt.Underlying().(*types.Pointer)
	if !isPtr {
		return "", Term{}, false
	}
	si := x.structOf(p.Elem())
	f := &si.Fields[sel.Index()[0]]
	return fieldHeapName(si, f), x.eval(se.X, st), true
}

func (x *Exec) lockArrays(st *State, key string) (w, r Term) {
	if st.ghost == nil {
		st.ghost = map[string]Term{}
	}
	w, ok := st.ghost["wl:"+key]
	if !ok {
		w = x.lockDefault("wl_"+key, arraySort(SInt, SBool))
		st.ghost["wl:"+key] = w
	}
	r, ok = st.ghost["rl:"+key]
	if !ok {
		r = x.lockDefault("rl_"+key, arraySort(SInt, SInt))
		st.ghost["rl:"+key] = r
	}
	return w, r
}

// lockDefault: the lock state at entry of the function under contract. Entry state: nothing is held by
// this goroutine (the ghost state tracks the locks held by the executing goroutine only).
func (x *Exec) lockDefault(name string, s Sort) Term {
	if _, v := arrayParts(s); v == SBool {
		return x.constArray(s, tFalse)
	}
	return x.constArray(s, intLit(0))
}

func (x *Exec) callLock(call *ast.CallExpr, op string, st *State) bool {
	se, ok := ast.Unparen(call.Fun).(*ast.SelectorExpr)
	if !ok {
		return false
	}
	key, obj, ok := x.lockOf(se.X, st)
	if !ok {
		panic(unsupported("lock operation on something that is not a field of a pointed-to struct: " + x.exprString(call.Fun)))
	}
	w, r := x.lockArrays(st, key)
	held, rc := sel(w, obj), sel(r, obj)
	switch op {
	case "Lock":
		x.safety(st, "lock-protocol", and(not(held), eq(rc, intLit(0))), "Lock of a lock this goroutine already holds (self-deadlock): "+x.exprString(se.X), call.Pos())
		st.ghost["wl:"+key] = store(w, obj, tTrue)
	case "Unlock":
		x.safety(st, "lock-protocol", held, "Unlock of a lock that is not write-locked: "+x.exprString(se.X), call.Pos())
		st.ghost["wl:"+key] = store(w, obj, tFalse)
	case "RLock":
		x.safety(st, "lock-protocol", not(held), "RLock while holding the write lock (self-deadlock): "+x.exprString(se.X), call.Pos())
		st.ghost["rl:"+key] = store(r, obj, mk(SInt, "+", rc, intLit(1)))
	case "RUnlock":
		x.safety(st, "lock-protocol", mk(SBool, ">", rc, intLit(0)), "RUnlock of a lock that is not read-locked: "+x.exprString(se.X), call.Pos())
		st.ghost["rl:"+key] = store(r, obj, mk(SInt, "-", rc, intLit(1)))
	}
	return true
}

// guardSpec is a resolved "guarded L by K" clause.
type guardSpec struct {
	field   *types.Var // the guarded field (identity of the struct field object)
	lockKey string
	text    string
	props   []string
}

// rootPointer walks a selector chain down to the pointer-typed expression it starts from.
func (x *Exec) rootPointer(e ast.Expr) ast.Expr {
	for {
		e = ast.Unparen(e)
		if _, ok := x.subst(types.Unalias(x.typeOf(e))).Underlying().(*types.Pointer); ok {
			return e
		}
		se, ok := e.(*ast.SelectorExpr)
		if !ok {
			return nil
		}
		e = se.X
	}
}

// guardCheck: e selects a field; if the field is guarded, the guarding lock must be held.
func (x *Exec) guardCheck(e *ast.SelectorExpr, st *State, write bool) {
	if len(x.guards) == 0 || !x.top().top {
		return
	}
	selection, ok := x.info().Selections[e]
	if !ok || selection.Kind() != types.FieldVal {
		return
	}
	fv, _ := selection.Obj().(*types.Var)
	for _, g := range x.guards {
		if g.field != fv {
			continue
		}
		root := x.rootPointer(e.X)
		if root == nil {
			panic(unsupported("access to a guarded field that is not reached through a pointer: " + x.exprString(e)))
		}
		obj := x.eval(root, st)
		w, r := x.lockArrays(st, g.lockKey)
		var goal Term
		what := "read"
		if write {
			goal = sel(w, obj)
			what = "write"
		} else {
			goal = or(sel(w, obj), mk(SBool, ">", sel(r, obj), intLit(0)))
		}
		o := x.emit(st, "guarded", fmt.Sprintf("%s.%s", what, fv.Name()), goal, g.props, what+" of "+x.exprString(e)+" while holding its lock ("+g.text+")", e.Pos())
		o.ClauseText = g.text
		x.guardCount[fv]++
	}
}

// resolveGuards turns the contract's guarded clauses into field objects and lock keys.
func (x *Exec) resolveGuards(c *Contract, fi *FuncInfo) {
	x.guards = nil
	x.guardCount = map[*types.Var]int{}
	for _, g := range c.Guarded {
		fv, _ := x.specFieldVar(fi, g.Loc)
		lv, owner := x.specFieldVar(fi, g.Lock)
		if fv == nil || lv == nil || owner == nil {
			panic(unsupported("guarded clause: cannot resolve " + g.Clause.Text))
		}
		si := x.structOf(owner)
		_, f := si.field(lv.Name())
		x.guards = append(x.guards, guardSpec{field: fv, lockKey: fieldHeapName(si, f), text: g.Clause.Text, props: g.Clause.Props})
	}
}

// specFieldVar resolves a field chain recv.f.g (idents and field selections only) against the
// parameter and receiver types of fi: the selected field object and the struct type that declares it.
func (x *Exec) specFieldVar(fi *FuncInfo, e *SpecExpr) (*types.Var, types.Type) {
	var typeOfExpr func(e *SpecExpr) types.Type
	var last *types.Var
	var owner types.Type
	typeOfExpr = func(e *SpecExpr) types.Type {
		switch e.Kind {
		case "ident":
			sig := fi.Sig
			if r := sig.Recv(); r != nil && r.Name() == e.Name {
				return r.Type()
			}
			for i := 0; i < sig.Params().Len(); i++ {
				if sig.Params().At(i).Name() == e.Name {
					return sig.Params().At(i).Type()
				}
			}
			return nil
		case "field":
			bt := typeOfExpr(e.Args[0])
			if bt == nil {
				return nil
			}
			bt = x.subst(types.Unalias(bt))
			if p, ok := bt.Underlying().(*types.Pointer); ok {
				bt = p.Elem()
			}
			obj, _, _ := types.LookupFieldOrMethod(bt, true, fi.Pkg.Types, e.Name)
			v, ok := obj.(*types.Var)
			if !ok {
				return nil
			}
			last, owner = v, bt
			return v.Type()
		}
		return nil
	}
	if typeOfExpr(e) == nil {
		return nil, nil
	}
	return last, owner
}
