// Package symex is the verification-condition generator ("govc"): a forward symbolic
// executor over the typed Go AST of functions in /repo that emits SMT-LIB proof
// obligations against //@ contracts (see /verif/DESIGN.md section 3).
package symex

import (
	"fmt"
	"sort"
	"strings"
)

// Sort is an SMT-LIB sort, written out.
type Sort string

const (
	SBool Sort = "Bool"
	SInt  Sort = "Int"
	SStr  Sort = "Str"
	SReal Sort = "Real"
)

// Term is an SMT-LIB term with its sort.
type Term struct {
	S    string
	Sort Sort
}

func (t Term) String() string { return t.S }

func mk(sort Sort, f string, args ...Term) Term {
	if len(args) == 0 {
		return Term{f, sort}
	}
	var b strings.Builder
	b.WriteByte('(')
	b.WriteString(f)
	for _, a := range args {
		b.WriteByte(' ')
		b.WriteString(a.S)
	}
	b.WriteByte(')')
	return Term{b.String(), sort}
}

var (
	tTrue  = Term{"true", SBool}
	tFalse = Term{"false", SBool}
)

func intLit(n int64) Term {
	if n < 0 {
		return Term{fmt.Sprintf("(- %d)", -n), SInt}
	}
	return Term{fmt.Sprintf("%d", n), SInt}
}

func bigLit(s string) Term {
	if strings.HasPrefix(s, "-") {
		return Term{"(- " + s[1:] + ")", SInt}
	}
	return Term{s, SInt}
}

func and(ts ...Term) Term {
	var keep []Term
	for _, t := range ts {
		if t.S == "true" {
			continue
		}
		if t.S == "false" {
			return tFalse
		}
		keep = append(keep, t)
	}
	switch len(keep) {
	case 0:
		return tTrue
	case 1:
		return keep[0]
	}
	return mk(SBool, "and", keep...)
}

func or(ts ...Term) Term {
	var keep []Term
	for _, t := range ts {
		if t.S == "false" {
			continue
		}
		if t.S == "true" {
			return tTrue
		}
		keep = append(keep, t)
	}
	switch len(keep) {
	case 0:
		return tFalse
	case 1:
		return keep[0]
	}
	return mk(SBool, "or", keep...)
}

func not(t Term) Term {
	switch t.S {
	case "true":
		return tFalse
	case "false":
		return tTrue
	}
	if strings.HasPrefix(t.S, "(not ") {
		return Term{t.S[5 : len(t.S)-1], SBool}
	}
	return mk(SBool, "not", t)
}

func implies(a, b Term) Term {
	if a.S == "true" {
		return b
	}
	if a.S == "false" || b.S == "true" {
		return tTrue
	}
	return mk(SBool, "=>", a, b)
}

func eq(a, b Term) Term {
	if a.S == b.S {
		return tTrue
	}
	if na, ok := litInt(a); ok {
		if nb, ok := litInt(b); ok && na != nb {
			return tFalse
		}
	}
	if (a.S == "true" && b.S == "false") || (a.S == "false" && b.S == "true") {
		return tFalse
	}
	return mk(SBool, "=", a, b)
}

// litInt recognises small integer literals.
func litInt(t Term) (int64, bool) {
	s := t.S
	neg := false
	if strings.HasPrefix(s, "(- ") && strings.HasSuffix(s, ")") {
		neg = true
		s = s[3 : len(s)-1]
	}
	if len(s) == 0 || len(s) > 15 {
		return 0, false
	}
	var n int64
	for _, c := range s {
		if c < '0' || c > '9' {
			return 0, false
		}
		n = n*10 + int64(c-'0')
	}
	if neg {
		n = -n
	}
	return n, true
}

// foldArith folds +,-,<,<=,>,>= on integer literals.
func foldArith(op string, a, b Term) (Term, bool) {
	na, ok1 := litInt(a)
	nb, ok2 := litInt(b)
	if !ok1 || !ok2 {
		return Term{}, false
	}
	bl := func(v bool) Term {
		if v {
			return tTrue
		}
		return tFalse
	}
	switch op {
	case "+":
		return intLit(na + nb), true
	case "-":
		return intLit(na - nb), true
	case "<":
		return bl(na < nb), true
	case "<=":
		return bl(na <= nb), true
	case ">":
		return bl(na > nb), true
	case ">=":
		return bl(na >= nb), true
	}
	return Term{}, false
}

func ite(c, a, b Term) Term {
	if c.S == "true" {
		return a
	}
	if c.S == "false" {
		return b
	}
	if a.S == b.S {
		return a
	}
	return mk(a.Sort, "ite", c, a, b)
}

func sel(arr, idx Term) Term {
	return mk(arrayElem(arr.Sort), "select", arr, idx)
}

func store(arr, idx, v Term) Term {
	return mk(arr.Sort, "store", arr, idx, v)
}

func arraySort(k, v Sort) Sort { return Sort("(Array " + string(k) + " " + string(v) + ")") }

// arrayElem returns the element sort of an array sort.
func arrayElem(s Sort) Sort {
	_, v := arrayParts(s)
	return v
}

func arrayParts(s Sort) (Sort, Sort) {
	str := string(s)
	if !strings.HasPrefix(str, "(Array ") {
		panic("not an array sort: " + str)
	}
	body := str[len("(Array ") : len(str)-1]
	// split at top level
	depth := 0
	for i, c := range body {
		switch c {
		case '(':
			depth++
		case ')':
			depth--
		case ' ':
			if depth == 0 {
				return Sort(body[:i]), Sort(body[i+1:])
			}
		}
	}
	panic("bad array sort: " + str)
}

func mangle(s string) string {
	var b strings.Builder
	for _, c := range s {
		switch {
		case c >= 'a' && c <= 'z', c >= 'A' && c <= 'Z', c >= '0' && c <= '9', c == '_':
			b.WriteRune(c)
		case c == '*':
			b.WriteString("P")
		case c == '[' || c == ']':
			b.WriteString("_")
		case c == '.' || c == '/':
			b.WriteString("_")
		case c == '(' || c == ')' || c == ' ':
			b.WriteString("_")
		default:
			b.WriteString(fmt.Sprintf("x%x", c))
		}
	}
	return b.String()
}

// Ctx accumulates the declarations shared by all obligations of one function
// (or one lemma): sorts, datatypes, uninterpreted functions, constants, axioms.
type Ctx struct {
	sortsDeclared map[string]bool
	decls         []string        // in order
	declared      map[string]bool // names
	axioms        []string
	axiomSet      map[string]bool
	fresh         map[string]int
	strLits       map[string]Term
	strLitOrder   []string
	tags          map[string]int // type tag constants
	tagOrder      []string
	structs       map[string]*structInfo
	usesWrap      bool
}

func NewCtx() *Ctx {
	c := &Ctx{
		sortsDeclared: map[string]bool{},
		declared:      map[string]bool{},
		axiomSet:      map[string]bool{},
		fresh:         map[string]int{},
		strLits:       map[string]Term{},
		tags:          map[string]int{},
		structs:       map[string]*structInfo{},
	}
	return c
}

func (c *Ctx) declRaw(name, text string) {
	if c.declared[name] {
		return
	}
	c.declared[name] = true
	c.decls = append(c.decls, text)
}

// DeclFun declares an uninterpreted function (idempotent).
func (c *Ctx) DeclFun(name string, args []Sort, res Sort) {
	if c.declared[name] {
		return
	}
	ss := make([]string, len(args))
	for i, a := range args {
		ss[i] = string(a)
	}
	c.declRaw(name, fmt.Sprintf("(declare-fun %s (%s) %s)", name, strings.Join(ss, " "), res))
}

func (c *Ctx) Axiom(text string) {
	if c.axiomSet[text] {
		return
	}
	c.axiomSet[text] = true
	c.axioms = append(c.axioms, text)
}

// Fresh returns a fresh constant of the given sort.
func (c *Ctx) Fresh(hint string, s Sort) Term {
	hint = mangle(hint)
	if hint == "" {
		hint = "t"
	}
	c.fresh[hint]++
	name := fmt.Sprintf("%s!%d", hint, c.fresh[hint])
	c.declRaw(name, fmt.Sprintf("(declare-const %s %s)", name, s))
	return Term{name, s}
}

// App applies an uninterpreted function, declaring it from the argument sorts.
func (c *Ctx) App(name string, res Sort, args ...Term) Term {
	as := make([]Sort, len(args))
	for i, a := range args {
		as[i] = a.Sort
	}
	c.DeclFun(name, as, res)
	return mk(res, name, args...)
}

// StrLit returns the constant for a string literal.
func (c *Ctx) StrLit(v string) Term {
	if t, ok := c.strLits[v]; ok {
		return t
	}
	name := fmt.Sprintf("lit%d_%s", len(c.strLits), mangle(truncate(v, 16)))
	if v == "" {
		name = "lit_empty"
	}
	t := Term{name, SStr}
	c.strLits[v] = t
	c.strLitOrder = append(c.strLitOrder, v)
	return t
}

func truncate(s string, n int) string {
	if len(s) > n {
		return s[:n]
	}
	return s
}

// Tag returns the type-tag constant of a Go type (by its go/types string identity).
func (c *Ctx) Tag(typeString string) Term {
	if _, ok := c.tags[typeString]; !ok {
		c.tags[typeString] = len(c.tags) + 1
		c.tagOrder = append(c.tagOrder, typeString)
	}
	return intLit(int64(c.tags[typeString]))
}

// Prelude is the fixed part of every query.
const prelude = `(set-logic ALL)
(declare-sort Str 0)
(declare-fun slen (Str) Int)
(declare-fun sbyte (Str Int) Int)
(declare-fun sconcat (Str Str) Str)
(declare-fun ssub (Str Int Int) Str)
(declare-fun sless (Str Str) Bool)
(declare-fun dyn (Int) Int)
(declare-fun implements (Int Int) Bool)
(assert (= (dyn 0) 0))
(assert (forall ((s Str)) (! (>= (slen s) 0) :pattern ((slen s)))))
(assert (forall ((a Str) (b Str)) (! (= (slen (sconcat a b)) (+ (slen a) (slen b))) :pattern ((sconcat a b)))))
(assert (forall ((a Str) (b Str) (i Int)) (! (= (sbyte (sconcat a b) i) (ite (< i (slen a)) (sbyte a i) (sbyte b (- i (slen a))))) :pattern ((sbyte (sconcat a b) i)))))
(assert (forall ((s Str) (i Int) (j Int)) (! (=> (and (<= 0 i) (<= i j) (<= j (slen s))) (= (slen (ssub s i j)) (- j i))) :pattern ((ssub s i j)))))
(assert (forall ((s Str) (i Int) (j Int) (k Int)) (! (=> (and (<= 0 i) (<= i j) (<= j (slen s)) (<= 0 k) (< k (- j i))) (= (sbyte (ssub s i j) k) (sbyte s (+ i k)))) :pattern ((sbyte (ssub s i j) k)))))
(assert (forall ((s Str) (i Int)) (! (and (<= 0 (sbyte s i)) (< (sbyte s i) 256)) :pattern ((sbyte s i)))))
(assert (forall ((s Str)) (! (= (ssub s 0 (slen s)) s) :pattern ((ssub s 0 (slen s))))))
(assert (forall ((a Str) (b Str)) (! (=> (= (slen a) 0) (= (sconcat a b) b)) :pattern ((sconcat a b)))))
(assert (forall ((a Str) (b Str)) (! (=> (= (slen b) 0) (= (sconcat a b) a)) :pattern ((sconcat a b)))))
(assert (forall ((a Str) (b Str) (c Str)) (! (= (sconcat (sconcat a b) c) (sconcat a (sconcat b c))) :pattern ((sconcat (sconcat a b) c)))))
(define-fun wrap64 ((x Int)) Int (- (mod (+ x 9223372036854775808) 18446744073709551616) 9223372036854775808))
`

const strOrderAxioms = `(assert (forall ((a Str)) (not (sless a a))))
(assert (forall ((a Str) (b Str)) (=> (and (sless a b) (sless b a)) false)))
(assert (forall ((a Str) (b Str) (c Str)) (=> (and (sless a b) (sless b c)) (sless a c))))
(assert (forall ((a Str) (b Str)) (or (sless a b) (= a b) (sless b a))))
`

// Render builds the full SMT-LIB text of one query: context + assumptions + negated goal.
func (c *Ctx) Render(assumptions []Term, goal Term, wantModel bool, getValues []Term) string {
	var b strings.Builder
	if wantModel {
		b.WriteString("(set-option :produce-models true)\n")
	}
	b.WriteString(prelude)
	body := c.renderDeclsAndAxioms()
	all := body
	for _, a := range assumptions {
		all += a.S
	}
	all += goal.S
	if strings.Contains(all, "sless") {
		b.WriteString(strOrderAxioms)
	}
	b.WriteString(body)
	for _, a := range assumptions {
		if a.S == "true" {
			continue
		}
		b.WriteString("(assert ")
		b.WriteString(a.S)
		b.WriteString(")\n")
	}
	b.WriteString("(assert (not ")
	b.WriteString(goal.S)
	b.WriteString("))\n(check-sat)\n")
	if wantModel && len(getValues) > 0 {
		b.WriteString("(get-value (")
		for i, v := range getValues {
			if i > 0 {
				b.WriteByte(' ')
			}
			b.WriteString(v.S)
		}
		b.WriteString("))\n")
	}
	return b.String()
}

func (c *Ctx) renderDeclsAndAxioms() string {
	var b strings.Builder
	// string literals: distinct constants with known lengths and bytes
	for _, v := range c.strLitOrder {
		t := c.strLits[v]
		fmt.Fprintf(&b, "(declare-const %s Str)\n", t.S)
		fmt.Fprintf(&b, "(assert (= (slen %s) %d))\n", t.S, len(v))
		for i := 0; i < len(v) && i < 24; i++ {
			fmt.Fprintf(&b, "(assert (= (sbyte %s %d) %d))\n", t.S, i, v[i])
		}
	}
	if len(c.strLitOrder) > 1 {
		// literals of different content are different strings
		b.WriteString("(assert (distinct")
		for _, v := range c.strLitOrder {
			b.WriteByte(' ')
			b.WriteString(c.strLits[v].S)
		}
		b.WriteString("))\n")
	}
	// the empty string is the only string of length 0
	if t, ok := c.strLits[""]; ok {
		fmt.Fprintf(&b, "(assert (forall ((s Str)) (! (=> (= (slen s) 0) (= s %s)) :pattern ((slen s)))))\n", t.S)
	}
	for _, d := range c.decls {
		b.WriteString(d)
		b.WriteByte('\n')
	}
	for _, a := range c.axioms {
		b.WriteString("(assert ")
		b.WriteString(a)
		b.WriteString(")\n")
	}
	return b.String()
}

// TagTable lists the type tags in use (for evidence and replay files).
func (c *Ctx) TagTable() []string {
	var out []string
	for _, t := range c.tagOrder {
		out = append(out, fmt.Sprintf("%d=%s", c.tags[t], t))
	}
	sort.Strings(out)
	return out
}
