package symex

import (
	"fmt"
	"go/ast"
	"go/constant"
	"go/token"
	"go/types"
	"strconv"
	"strings"
)

// eval evaluates an expression in st (mutating st for side effects).
func (x *Exec) eval(e ast.Expr, st *State) Term {
	x.curPos = e.Pos()
	// constants folded by go/types
	if tv, ok := x.info().Types[e]; ok && tv.Value != nil {
		return x.constTerm(tv.Value, tv.Type)
	}
	switch e := e.(type) {
	case *ast.ParenExpr:
		return x.eval(e.X, st)
	case *ast.BasicLit:
		switch e.Kind {
		case token.INT:
			return bigLit(e.Value)
		case token.STRING:
			s, _ := strconv.Unquote(e.Value)
			return x.ctx.StrLit(s)
		case token.CHAR:
			r, _, _, _ := strconv.UnquoteChar(e.Value[1:len(e.Value)-1], '\'')
			return intLit(int64(r))
		}
		panic(unsupported("literal " + e.Value))
	case *ast.Ident:
		return x.evalIdent(e, st)
	case *ast.SelectorExpr:
		return x.evalSelector(e, st)
	case *ast.StarExpr:
		p := x.eval(e.X, st)
		pt := x.typeOf(e.X).Underlying().(*types.Pointer)
		x.nilCheck(st, p, "dereference of "+x.exprString(e.X), e.Pos())
		return x.loadPtr(st, p, pt.Elem())
	case *ast.UnaryExpr:
		return x.evalUnary(e, st)
	case *ast.BinaryExpr:
		return x.evalBinary(e, st)
	case *ast.CallExpr:
		rs := x.evalCall(e, st)
		if len(rs) != 1 {
			panic(unsupported(fmt.Sprintf("call %s used as single value has %d results", x.exprString(e.Fun), len(rs))))
		}
		return rs[0]
	case *ast.IndexExpr:
		return x.evalIndex(e, st)
	case *ast.SliceExpr:
		return x.evalSliceExpr(e, st)
	case *ast.CompositeLit:
		return x.evalCompositeLit(e, st, false)
	case *ast.TypeAssertExpr:
		v, ok := x.evalTypeAssert(e, st)
		if x.contract != nil && x.contract.Safety["type-assert-may-panic"] {
			// the contract accepts a panic here (a value of the wrong dynamic type was configured by the caller)
			st.assume(ok)
		} else {
			kind := "type-assert"
			if isInterface(x.subst(types.Unalias(x.typeOf(e.Type)))) {
				kind = "type-assert-iface" // (fails for a nil operand: a hazard of its own)
			}
			x.safety(st, kind, ok, "type assertion "+x.exprString(e), e.Pos())
		}
		return v
	case *ast.FuncLit:
		return x.evalFuncLit(e, st)
	case *ast.KeyValueExpr:
		panic(unsupported("key-value outside literal"))
	}
	panic(unsupported(fmt.Sprintf("expression %T %s", e, x.exprString(e))))
}

func (x *Exec) constTerm(v constant.Value, t types.Type) Term {
	switch v.Kind() {
	case constant.Bool:
		if constant.BoolVal(v) {
			return tTrue
		}
		return tFalse
	case constant.Int:
		return bigLit(v.ExactString())
	case constant.String:
		return x.ctx.StrLit(constant.StringVal(v))
	case constant.Float:
		if t != nil {
			if b, ok := t.Underlying().(*types.Basic); ok && b.Info()&types.IsInteger != 0 {
				return bigLit(v.ExactString())
			}
		}
		f, _ := constant.Float64Val(v)
		return Term{strconv.FormatFloat(f, 'f', -1, 64), SReal}
	}
	panic(unsupported("constant kind " + v.Kind().String()))
}

func (x *Exec) evalIdent(e *ast.Ident, st *State) Term {
	obj := x.info().Uses[e]
	if obj == nil {
		obj = x.info().Defs[e]
	}
	switch o := obj.(type) {
	case *types.Nil:
		t := x.info().TypeOf(e)
		if t != nil {
			if _, ok := t.Underlying().(*types.Slice); ok {
				return x.zero(t)
			}
		}
		return intLit(0)
	case *types.Const:
		return x.constTerm(o.Val(), o.Type())
	case *types.Var:
		return x.loadVar(st, o)
	case *types.Func:
		return x.fnConst(o.FullName())
	case *types.Builtin:
		panic(unsupported("builtin as value " + e.Name))
	}
	if e.Name == "_" {
		panic(unsupported("blank identifier read"))
	}
	panic(unsupported("identifier " + e.Name))
}

func (x *Exec) isGlobal(v *types.Var) bool {
	return v.Pkg() != nil && v.Parent() == v.Pkg().Scope()
}

func globalName(v *types.Var) string { return "G_" + v.Pkg().Name() + "_" + v.Name() }

func (x *Exec) loadVar(st *State, v *types.Var) Term {
	if x.isGlobal(v) {
		t := x.heapGet(st, globalName(v), x.sortOf(v.Type()))
		return t
	}
	t, ok := st.vars[v]
	if !ok {
		panic(unsupported("variable " + v.Name() + " not in scope (captured?)"))
	}
	if x.boxed[v] {
		return x.loadPtr(st, t, v.Type())
	}
	return t
}

func (x *Exec) storeVar(st *State, v *types.Var, val Term) {
	if x.isGlobal(v) {
		x.writeAt(st, globalName(v), intLit(0), false)
		x.heapSet(st, globalName(v), val)
		return
	}
	if x.boxed[v] {
		ref, ok := st.vars[v]
		if !ok {
			panic(unsupported("boxed variable without reference " + v.Name()))
		}
		x.storePtr(st, ref, v.Type(), val)
		return
	}
	st.vars[v] = x.name(st, v.Name(), val)
}

// declVar introduces a local.
func (x *Exec) declVar(st *State, v *types.Var, val Term) {
	if x.boxed[v] {
		ref := x.allocRef(st, v.Name())
		st.vars[v] = ref
		x.storePtr(st, ref, v.Type(), val)
		return
	}
	st.vars[v] = x.name(st, v.Name(), val)
}

// loadPtr reads *p for p of type *T.
func (x *Exec) loadPtr(st *State, p Term, elem types.Type) Term {
	elem = x.subst(types.Unalias(elem))
	if _, ok := elem.Underlying().(*types.Struct); ok {
		si := x.structOf(elem)
		args := make([]Term, len(si.Fields))
		for i := range si.Fields {
			f := &si.Fields[i]
			args[i] = sel(x.heapGet(st, fieldHeapName(si, f), arraySort(SInt, f.Sort)), p)
		}
		return mk(si.Sort, si.Ctor, args...)
	}
	s := x.sortOf(elem)
	v := sel(x.heapGet(st, ptrHeapName(s), arraySort(SInt, s)), p)
	x.addReadFacts(st, v, elem)
	return v
}

func (x *Exec) storePtr(st *State, p Term, elem types.Type, val Term) {
	elem = x.subst(types.Unalias(elem))
	if _, ok := elem.Underlying().(*types.Struct); ok {
		si := x.structOf(elem)
		for i := range si.Fields {
			f := &si.Fields[i]
			hn := fieldHeapName(si, f)
			h := x.heapGet(st, hn, arraySort(SInt, f.Sort))
			x.writeAt(st, hn, p, false)
			x.heapSet(st, hn, store(h, p, x.structField(val, si, i)))
		}
		return
	}
	s := x.sortOf(elem)
	hn := ptrHeapName(s)
	h := x.heapGet(st, hn, arraySort(SInt, s))
	x.writeAt(st, hn, p, false)
	x.heapSet(st, hn, store(h, p, val))
}

// structField projects field i of a struct value, simplifying constructor applications.
func (x *Exec) structField(v Term, si *structInfo, i int) Term {
	if strings.HasPrefix(v.S, "("+si.Ctor+" ") {
		if parts := splitSexpArgs(v.S); len(parts) == len(si.Fields)+1 {
			return Term{parts[i+1], si.Fields[i].Sort}
		}
	}
	return mk(si.Fields[i].Sort, si.Fields[i].Sel, v)
}

// splitSexpArgs splits "(f a b c)" into [f a b c] at the top level.
func splitSexpArgs(s string) []string {
	if len(s) < 2 || s[0] != '(' {
		return nil
	}
	body := s[1 : len(s)-1]
	var out []string
	depth, start := 0, 0
	for i := 0; i < len(body); i++ {
		switch body[i] {
		case '(':
			depth++
		case ')':
			depth--
		case ' ':
			if depth == 0 {
				if i > start {
					out = append(out, body[start:i])
				}
				start = i + 1
			}
		}
	}
	if start < len(body) {
		out = append(out, body[start:])
	}
	return out
}

func (x *Exec) withField(v Term, si *structInfo, i int, nv Term) Term {
	args := make([]Term, len(si.Fields))
	for j := range si.Fields {
		if j == i {
			args[j] = nv
		} else {
			args[j] = x.structField(v, si, j)
		}
	}
	return mk(si.Sort, si.Ctor, args...)
}

// addReadFacts adds the type invariants of a value read from memory.
func (x *Exec) addReadFacts(st *State, v Term, t types.Type) {
	t = x.subst(types.Unalias(t))
	switch t.Underlying().(type) {
	case *types.Pointer, *types.Map:
		if len(v.S) < 200 {
			st.assume(and(mk(SBool, "<=", intLit(0), v), mk(SBool, "<", v, st.alloc)))
		}
	case *types.Slice:
		for _, f := range x.typeFacts(v, t) {
			st.assume(f)
		}
		if len(v.S) < 200 {
			a := x.sliceArr(v)
			st.assume(and(mk(SBool, "<=", intLit(0), a), mk(SBool, "<", a, st.alloc)))
		}
	}
}

func (x *Exec) nilCheck(st *State, p Term, desc string, pos token.Pos) {
	if !x.opts.NilDeref {
		return
	}
	x.safety(st, "nil-deref", not(eq(p, intLit(0))), desc, pos)
}

// ---- selectors ----

func (x *Exec) evalSelector(e *ast.SelectorExpr, st *State) Term {
	if sel, ok := x.info().Selections[e]; ok {
		switch sel.Kind() {
		case types.FieldVal:
			x.guardCheck(e, st, false)
			base := x.eval(e.X, st)
			return x.walkFields(st, base, x.typeOf(e.X), sel.Index(), e.Pos())
		case types.MethodVal:
			// method value: opaque function value bound to its receiver
			recv := x.eval(e.X, st)
			return x.ctx.App("methodval_"+mangle(sel.Obj().(*types.Func).FullName()), SInt, recv)
		}
		panic(unsupported("selection kind in " + x.exprString(e)))
	}
	// qualified identifier
	obj := x.info().Uses[e.Sel]
	switch o := obj.(type) {
	case *types.Const:
		return x.constTerm(o.Val(), o.Type())
	case *types.Var:
		return x.loadVar(st, o)
	case *types.Func:
		return x.fnConst(o.FullName())
	}
	panic(unsupported("qualified identifier " + x.exprString(e)))
}

// walkFields follows a field index path from a base value.
func (x *Exec) walkFields(st *State, cur Term, curT types.Type, path []int, pos token.Pos) Term {
	for _, idx := range path {
		curT = x.subst(types.Unalias(curT))
		if p, ok := curT.Underlying().(*types.Pointer); ok {
			x.nilCheck(st, cur, "field access through nil pointer", pos)
			si := x.structOf(p.Elem())
			f := &si.Fields[idx]
			cur = sel(x.heapGet(st, fieldHeapName(si, f), arraySort(SInt, f.Sort)), cur)
			curT = f.Type
			x.addReadFacts(st, cur, curT)
			continue
		}
		si := x.structOf(curT)
		cur = x.structField(cur, si, idx)
		curT = si.Fields[idx].Type
	}
	return cur
}

// ---- unary / binary ----

func (x *Exec) evalUnary(e *ast.UnaryExpr, st *State) Term {
	switch e.Op {
	case token.NOT:
		return not(x.eval(e.X, st))
	case token.SUB:
		v := x.eval(e.X, st)
		return x.wrapArith(mk(v.Sort, "-", v), x.typeOf(e))
	case token.ADD:
		return x.eval(e.X, st)
	case token.AND:
		return x.addressOf(e.X, st)
	}
	panic(unsupported("unary operator " + e.Op.String()))
}

// addressOf evaluates &e.
func (x *Exec) addressOf(e ast.Expr, st *State) Term {
	switch t := e.(type) {
	case *ast.ParenExpr:
		return x.addressOf(t.X, st)
	case *ast.CompositeLit:
		return x.evalCompositeLit(t, st, true)
	case *ast.Ident:
		if v, ok := x.info().Uses[t].(*types.Var); ok {
			if isLogType(v.Type()) {
				return x.ctx.Fresh("logref", SInt)
			}
			if x.boxed[v] {
				return st.vars[v]
			}
			if x.isGlobal(v) {
				panic(unsupported("address of package variable " + v.Name()))
			}
		}
	}
	panic(unsupported("address of " + x.exprString(e)))
}

func isStringType(t types.Type) bool {
	b, ok := t.Underlying().(*types.Basic)
	return ok && b.Info()&types.IsString != 0
}

func isIntType(t types.Type) bool {
	b, ok := t.Underlying().(*types.Basic)
	return ok && b.Info()&types.IsInteger != 0
}

// wrapArith applies fixed-width wrap-around for integer results of user arithmetic.
func (x *Exec) wrapArith(v Term, t types.Type) Term {
	if x.contract != nil && x.contract.Safety["wrap64"] {
		t = x.subst(types.Unalias(t))
		if b, ok := t.Underlying().(*types.Basic); ok && (b.Kind() == types.Int || b.Kind() == types.Int64) {
			return mk(SInt, "wrap64", v)
		}
	}
	return v
}

func (x *Exec) evalBinary(e *ast.BinaryExpr, st *State) Term {
	switch e.Op {
	case token.LAND, token.LOR:
		a := x.eval(e.X, st)
		if (e.Op == token.LAND && a.S == "false") || (e.Op == token.LOR && a.S == "true") {
			return a // short circuit: the right operand is not evaluated
		}
		base := st.clone()
		s1 := st.clone()
		if e.Op == token.LAND {
			s1.assume(a)
		} else {
			s1.assume(not(a))
		}
		b := x.eval(e.Y, s1)
		s2 := base.clone()
		if e.Op == token.LAND {
			s2.assume(not(a))
		} else {
			s2.assume(a)
		}
		j := x.join(base, []*State{s1, s2})
		*st = *j
		if e.Op == token.LAND {
			return and(a, b)
		}
		return or(a, b)
	}
	a := x.eval(e.X, st)
	b := x.eval(e.Y, st)
	ta, tb := x.typeOf(e.X), x.typeOf(e.Y)
	return x.binop(st, e.Op, a, b, ta, tb, x.typeOf(e), e.Pos())
}

func (x *Exec) binop(st *State, op token.Token, a, b Term, ta, tb, tr types.Type, pos token.Pos) Term {
	switch op {
	case token.EQL, token.NEQ:
		// comparison of interface with concrete value boxes the concrete side
		if isInterface(ta) && !isInterface(tb) && !isNilType(tb) {
			b = x.box(st, b, tb)
		}
		if isInterface(tb) && !isInterface(ta) && !isNilType(ta) {
			a = x.box(st, a, ta)
		}
		if a.Sort != b.Sort {
			// nil against slice
			if isNilType(tb) {
				if _, ok := x.sliceElems[a.Sort]; ok {
					r := not(x.sliceNonNil(a))
					if op == token.NEQ {
						return not(r)
					}
					return r
				}
			}
			if isNilType(ta) {
				if _, ok := x.sliceElems[b.Sort]; ok {
					r := not(x.sliceNonNil(b))
					if op == token.NEQ {
						return not(r)
					}
					return r
				}
			}
			panic(unsupported(fmt.Sprintf("comparison of sorts %s and %s", a.Sort, b.Sort)))
		}
		if _, ok := x.sliceElems[a.Sort]; ok && (isNilType(ta) || isNilType(tb)) {
			other := a
			if isNilType(ta) {
				other = b
			}
			r := not(x.sliceNonNil(other))
			if op == token.NEQ {
				return not(r)
			}
			return r
		}
		r := eq(a, b)
		if op == token.NEQ {
			return not(r)
		}
		return r
	case token.LSS, token.LEQ, token.GTR, token.GEQ:
		if isStringType(ta) {
			switch op {
			case token.LSS:
				return mk(SBool, "sless", a, b)
			case token.GTR:
				return mk(SBool, "sless", b, a)
			case token.LEQ:
				return not(mk(SBool, "sless", b, a))
			default:
				return not(mk(SBool, "sless", a, b))
			}
		}
		ops := map[token.Token]string{token.LSS: "<", token.LEQ: "<=", token.GTR: ">", token.GEQ: ">="}[op]
		if f, ok := foldArith(ops, a, b); ok {
			return f
		}
		return mk(SBool, ops, a, b)
	case token.ADD:
		if isStringType(ta) {
			return mk(SStr, "sconcat", a, b)
		}
		if f, ok := foldArith("+", a, b); ok && !(x.contract != nil && x.contract.Safety["wrap64"]) {
			return f
		}
		return x.wrapArith(mk(a.Sort, "+", a, b), tr)
	case token.SUB:
		if f, ok := foldArith("-", a, b); ok && !(x.contract != nil && x.contract.Safety["wrap64"]) {
			return f
		}
		return x.wrapArith(mk(a.Sort, "-", a, b), tr)
	case token.MUL:
		return x.wrapArith(mk(a.Sort, "*", a, b), tr)
	case token.QUO:
		if a.Sort == SInt {
			x.safety(st, "div-zero", not(eq(b, intLit(0))), "integer division", pos)
			return x.wrapArith(x.tdiv(a, b), tr)
		}
		return mk(a.Sort, "/", a, b)
	case token.REM:
		x.safety(st, "div-zero", not(eq(b, intLit(0))), "integer remainder", pos)
		return x.tmod(a, b)
	case token.OR, token.AND, token.XOR, token.SHL, token.SHR, token.AND_NOT:
		return x.ctx.App("bitop_"+mangle(op.String()), SInt, a, b)
	}
	panic(unsupported("binary operator " + op.String()))
}

func isNilType(t types.Type) bool {
	b, ok := t.(*types.Basic)
	return ok && b.Kind() == types.UntypedNil
}

// tdiv / tmod: Go's truncated division.
func (x *Exec) tdiv(a, b Term) Term {
	x.ctx.declRaw("tdiv", "(define-fun tdiv ((a Int) (b Int)) Int (ite (>= a 0) (ite (> b 0) (div a b) (- (div a (- b)))) (ite (> b 0) (- (div (- a) b)) (div (- a) (- b)))))")
	return mk(SInt, "tdiv", a, b)
}

func (x *Exec) tmod(a, b Term) Term {
	x.tdiv(a, b)
	x.ctx.declRaw("tmod", "(define-fun tmod ((a Int) (b Int)) Int (- a (* b (tdiv a b))))")
	return mk(SInt, "tmod", a, b)
}

// ---- index / slice ----

func (x *Exec) evalIndex(e *ast.IndexExpr, st *State) Term {
	// generic instantiation F[T]
	if tv, ok := x.info().Types[e.Index]; ok && tv.IsType() {
		if id, ok := e.X.(*ast.Ident); ok {
			if fn, ok := x.info().Uses[id].(*types.Func); ok {
				return x.fnConst(fn.FullName() + "[" + tv.Type.String() + "]")
			}
		}
		panic(unsupported("instantiation " + x.exprString(e)))
	}
	bt := x.typeOf(e.X)
	switch u := bt.Underlying().(type) {
	case *types.Map:
		m := x.eval(e.X, st)
		k := x.convert(st, x.eval(e.Index, st), x.typeOf(e.Index), u.Key())
		v, _ := x.mapLookup(st, m, k, u)
		return v
	case *types.Slice, *types.Array:
		s := x.eval(e.X, st)
		i := x.eval(e.Index, st)
		x.safety(st, "index", and(mk(SBool, "<=", intLit(0), i), mk(SBool, "<", i, x.sliceLen(s))), "index "+x.exprString(e), e.Pos())
		v := sel(x.sliceElemsOf(s), i)
		x.addReadFacts(st, v, elemTypeOf(bt))
		return v
	case *types.Basic:
		if u.Info()&types.IsString != 0 {
			s := x.eval(e.X, st)
			i := x.eval(e.Index, st)
			x.safety(st, "index", and(mk(SBool, "<=", intLit(0), i), mk(SBool, "<", i, mk(SInt, "slen", s))), "string index "+x.exprString(e), e.Pos())
			return mk(SInt, "sbyte", s, i)
		}
	case *types.Pointer:
		if _, ok := u.Elem().Underlying().(*types.Array); ok {
			panic(unsupported("index through array pointer"))
		}
	}
	panic(unsupported("index of " + bt.String()))
}

func (x *Exec) mapLookup(st *State, m, k Term, mt *types.Map) (Term, Term) {
	mh := x.mapHeap(mt)
	ks, vs := mh.ks, mh.vs
	_, _ = ks, vs
	has := and(not(eq(m, intLit(0))), sel(sel(x.heapGet(st, mh.has, arraySort(SInt, arraySort(ks, SBool))), m), k))
	val := sel(sel(x.heapGet(st, mh.val, arraySort(SInt, arraySort(ks, vs))), m), k)
	v := ite(has, val, x.zero(mt.Elem()))
	v = x.name(st, "mapval", v)
	x.addReadFacts(st, v, mt.Elem())
	return v, has
}

func (x *Exec) mapStore(st *State, m, k, v Term, mt *types.Map, pos token.Pos) {
	x.safety(st, "nil-map-write", not(eq(m, intLit(0))), "assignment to entry in possibly nil map", pos)
	mh := x.mapHeap(mt)
	ks, vs := mh.ks, mh.vs
	_, _ = ks, vs
	hn, vn := mh.has, mh.val
	H := x.heapGet(st, hn, arraySort(SInt, arraySort(ks, SBool)))
	V := x.heapGet(st, vn, arraySort(SInt, arraySort(ks, vs)))
	x.writeAt(st, hn, m, false)
	x.writeAt(st, vn, m, false)
	x.heapSet(st, hn, store(H, m, store(sel(H, m), k, tTrue)))
	x.heapSet(st, vn, store(V, m, store(sel(V, m), k, v)))
}

func (x *Exec) mapDelete(st *State, m, k Term, mt *types.Map) {
	mh := x.mapHeap(mt)
	ks, vs := mh.ks, mh.vs
	_, _ = ks, vs
	hn := mh.has
	H := x.heapGet(st, hn, arraySort(SInt, arraySort(ks, SBool)))
	// delete on a nil map is a no-op; writing at reference 0 keeps nil maps empty only if we guard
	x.writeAt(st, hn, m, false)
	x.heapSet(st, hn, ite(eq(m, intLit(0)), H, store(H, m, store(sel(H, m), k, tFalse))))
}

// newMap allocates an empty map.
func (x *Exec) newMap(st *State, mt *types.Map) Term {
	mh := x.mapHeap(mt)
	ks, vs := mh.ks, mh.vs
	_, _ = ks, vs
	r := x.allocRef(st, "map")
	hn, vn := mh.has, mh.val
	H := x.heapGet(st, hn, arraySort(SInt, arraySort(ks, SBool)))
	V := x.heapGet(st, vn, arraySort(SInt, arraySort(ks, vs)))
	x.heapSet(st, hn, store(H, r, x.constArray(arraySort(ks, SBool), tFalse)))
	x.heapSet(st, vn, store(V, r, x.constArray(arraySort(ks, vs), x.zero(mt.Elem()))))
	return r
}

func (x *Exec) evalSliceExpr(e *ast.SliceExpr, st *State) Term {
	bt := x.typeOf(e.X)
	if isStringType(bt) {
		s := x.eval(e.X, st)
		lo, hi := intLit(0), mk(SInt, "slen", s)
		if e.Low != nil {
			lo = x.eval(e.Low, st)
		}
		if e.High != nil {
			hi = x.eval(e.High, st)
		}
		x.safety(st, "slice-bounds", and(mk(SBool, "<=", intLit(0), lo), mk(SBool, "<=", lo, hi), mk(SBool, "<=", hi, mk(SInt, "slen", s))), "string slice "+x.exprString(e), e.Pos())
		return mk(SStr, "ssub", s, lo, hi)
	}
	if _, ok := bt.Underlying().(*types.Slice); ok {
		s := x.eval(e.X, st)
		lo, hi := intLit(0), x.sliceLen(s)
		if e.Low != nil {
			lo = x.eval(e.Low, st)
		}
		if e.High != nil {
			hi = x.eval(e.High, st)
		}
		// upper bound is cap(s) in Go; we use len(s) (stricter, sound for safety)
		x.safety(st, "slice-bounds", and(mk(SBool, "<=", intLit(0), lo), mk(SBool, "<=", lo, hi), mk(SBool, "<=", hi, x.sliceLen(s))), "slice "+x.exprString(e), e.Pos())
		elem := x.elemOfSliceSort(s.Sort)
		if lo.S == "0" {
			return x.mkSlice(elem, x.sliceElemsOf(s), hi, x.sliceNonNil(s), x.sliceArr(s))
		}
		arr := x.ctx.Fresh("subslice", arraySort(SInt, elem))
		st.define(Term{fmt.Sprintf("(forall ((k Int)) (! (= (select %s k) (select %s (+ k %s))) :pattern ((select %s k))))", arr.S, x.sliceElemsOf(s).S, lo.S, arr.S), SBool})
		return x.mkSlice(elem, arr, mk(SInt, "-", hi, lo), x.sliceNonNil(s), x.sliceArr(s))
	}
	panic(unsupported("slice expression on " + bt.String()))
}

// ---- composite literals ----

func (x *Exec) evalCompositeLit(e *ast.CompositeLit, st *State, addr bool) Term {
	t := x.typeOf(e)
	if p, ok := t.Underlying().(*types.Pointer); ok && addr {
		t = p.Elem()
	}
	switch u := t.Underlying().(type) {
	case *types.Struct:
		si := x.structOf(t)
		vals := make([]Term, len(si.Fields))
		for i, f := range si.Fields {
			vals[i] = x.zero(f.Type)
		}
		for i, el := range e.Elts {
			if kv, ok := el.(*ast.KeyValueExpr); ok {
				name := kv.Key.(*ast.Ident).Name
				idx, f := si.field(name)
				if f == nil {
					panic(unsupported("unknown field " + name))
				}
				vals[idx] = x.evalTo(kv.Value, st, f.Type)
			} else {
				vals[i] = x.evalTo(el, st, si.Fields[i].Type)
			}
		}
		v := mk(si.Sort, si.Ctor, vals...)
		if addr {
			r := x.allocRef(st, si.Key)
			x.storePtr(st, r, t, v)
			return r
		}
		return v
	case *types.Slice:
		elem := x.sortOf(u.Elem())
		arr := x.constArray(arraySort(SInt, elem), x.zero(u.Elem()))
		n := 0
		for _, el := range e.Elts {
			if kv, ok := el.(*ast.KeyValueExpr); ok {
				_ = kv
				panic(unsupported("keyed slice literal"))
			}
			var v Term
			if cl, ok := el.(*ast.CompositeLit); ok && cl.Type == nil {
				v = x.evalElidedLit(cl, st, u.Elem())
			} else {
				v = x.evalTo(el, st, u.Elem())
			}
			arr = store(arr, intLit(int64(n)), v)
			n++
		}
		arr = x.name(st, "lit", arr)
		if addr {
			panic(unsupported("address of slice literal"))
		}
		return x.mkSlice(elem, arr, intLit(int64(n)), tTrue, x.allocRef(st, "array"))
	case *types.Map:
		r := x.newMap(st, u)
		for _, el := range e.Elts {
			kv := el.(*ast.KeyValueExpr)
			k := x.evalTo(kv.Key, st, u.Key())
			var v Term
			if cl, ok := kv.Value.(*ast.CompositeLit); ok && cl.Type == nil {
				v = x.evalElidedLit(cl, st, u.Elem())
			} else {
				v = x.evalTo(kv.Value, st, u.Elem())
			}
			x.mapStore(st, r, k, v, u, e.Pos())
		}
		return r
	}
	panic(unsupported("composite literal of " + t.String()))
}

// evalElidedLit handles {…} elements whose type is elided (possibly &T elided for pointer elems).
func (x *Exec) evalElidedLit(cl *ast.CompositeLit, st *State, elemT types.Type) Term {
	if _, ok := elemT.Underlying().(*types.Pointer); ok {
		return x.evalCompositeLit(cl, st, true)
	}
	return x.evalCompositeLit(cl, st, false)
}

// evalTo evaluates e and converts it to the target type (boxing into interfaces).
func (x *Exec) evalTo(e ast.Expr, st *State, to types.Type) Term {
	v := x.eval(e, st)
	from := x.info().TypeOf(e)
	// nil to a slice-typed location
	if from != nil && isNilType(from) {
		if _, ok := to.Underlying().(*types.Slice); ok {
			return x.zero(to)
		}
	}
	return x.convert(st, v, from, to)
}

// ---- type assertions ----

// evalTypeAssert returns the asserted value and the success condition.
func (x *Exec) evalTypeAssert(e *ast.TypeAssertExpr, st *State) (Term, Term) {
	v := x.eval(e.X, st)
	to := x.typeOf(e.Type)
	return x.assertTo(st, v, to)
}

func (x *Exec) assertTo(st *State, v Term, to types.Type) (Term, Term) {
	to = x.subst(types.Unalias(to))
	if br, ok := x.boxInfo[v.S]; ok && !isInterface(to) {
		if types.Identical(br.typ, to) {
			return br.val, tTrue
		}
		return x.zero(to), tFalse
	}
	if isInterface(to) {
		ok := and(not(eq(v, intLit(0))), mk(SBool, "implements", mk(SInt, "dyn", v), x.ctx.Tag("iface:"+typeTagString(to))))
		if it, _ := to.Underlying().(*types.Interface); it != nil && it.Empty() {
			ok = not(eq(v, intLit(0)))
		}
		return ite(ok, v, intLit(0)), ok
	}
	ok := eq(mk(SInt, "dyn", v), x.tagOf(to))
	val := x.unbox(v, to)
	// an interface value of dynamic type T is the boxing of its T value
	if x.contract != nil && (x.contract.Safety["type-assert-may-panic"] || x.contract.Safety["box-inverse"]) {
		// (stated only where contracts compare boxed values with configured interface values: the generated
		// testify methods; elsewhere the extra equation only slows the solvers down)
		st.assume(implies(ok, eq(x.ctx.App("box_"+mangle(typeTagString(to)), SInt, val), v)))
	}
	return val, ok
}

// ---- function literals ----

func (x *Exec) evalFuncLit(e *ast.FuncLit, st *State) Term {
	// each evaluation of a literal yields a function value identified by its position
	return x.fnConst(fmt.Sprintf("lit@%s", x.posString(e.Pos())))
}
