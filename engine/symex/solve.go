package symex

import (
	"bytes"
	"context"
	"fmt"
	"os"
	"os/exec"
	"path/filepath"
	"strings"
	"sync"
	"time"
)

// ReplayInfo says how a counterexample of this obligation can be replayed on the real code.
type ReplayInfo struct {
	Kind string
}

// Outcome of one obligation.
type Outcome struct {
	Obl      *Obligation
	Result   string // proved | refuted | unknown | error
	Backend  string
	Ms       int64
	Model    string            // raw get-value output when refuted
	Per      map[string]string // solver -> answer
	File     string            // query file kept for failures
	AllAgree bool
}

type solverSpec struct {
	name string
	args func(file string, timeoutMs int) []string
}

var solvers = []solverSpec{
	{"z3-new", func(f string, t int) []string {
		return []string{"z3-new", fmt.Sprintf("-T:%d", (t+999)/1000), "-smt2", f}
	}},
	{"z3", func(f string, t int) []string { return []string{"z3", fmt.Sprintf("-T:%d", (t+999)/1000), "-smt2", f} }},
	{"cvc5", func(f string, t int) []string {
		return []string{"cvc5", "--lang", "smt2", fmt.Sprintf("--tlimit=%d", t), f}
	}},
}

// SolveOpts configures discharge.
type SolveOpts struct {
	TimeoutMs   int
	Parallel    int
	Dir         string // scratch directory for query files
	RequireTwo  bool   // thorough: every obligation must be unsat on two back ends
	KeepQueries bool
	MaxRetry    int
	noParts     bool
	// ExpectedToFail names obligations recorded as known findings: they are still attempted (a finding
	// that has been repaired shows up as proved) but get no second chance and no conjunct search.
	ExpectedToFail func(name string) bool
}

func runSolver(ctx context.Context, s solverSpec, file string, timeoutMs int) (answer string, out string) {
	argv := s.args(file, timeoutMs)
	cctx, cancel := context.WithTimeout(ctx, time.Duration(timeoutMs+1500)*time.Millisecond)
	defer cancel()
	cmd := exec.CommandContext(cctx, argv[0], argv[1:]...)
	var buf bytes.Buffer
	cmd.Stdout = &buf
	cmd.Stderr = &buf
	_ = cmd.Run()
	out = buf.String()
	first := strings.TrimSpace(strings.SplitN(out, "\n", 2)[0])
	switch first {
	case "unsat", "sat", "unknown":
		return first, out
	case "timeout":
		return "unknown", out
	}
	if cctx.Err() != nil {
		return "unknown", out
	}
	if strings.Contains(out, "error") || strings.Contains(out, "Error") {
		return "error", out
	}
	return "unknown", out
}

// Discharge solves all obligations, racing the solvers per obligation.
func Discharge(obls []*Obligation, opts SolveOpts) []*Outcome {
	if opts.Parallel <= 0 {
		opts.Parallel = 6
	}
	if opts.TimeoutMs <= 0 {
		opts.TimeoutMs = 5000
	}
	if opts.MaxRetry == 0 {
		opts.MaxRetry = 10
	}
	os.MkdirAll(opts.Dir, 0o755)
	outs := make([]*Outcome, len(obls))
	sem := make(chan struct{}, opts.Parallel)
	var wg sync.WaitGroup
	for i, o := range obls {
		wg.Add(1)
		sem <- struct{}{}
		go func(i int, o *Obligation) {
			defer wg.Done()
			defer func() { <-sem }()
			outs[i] = dischargeOne(i, o, opts)
		}(i, o)
	}
	wg.Wait()
	// Second chance, sequentially and with a longer budget, for obligations that did not discharge:
	// a loaded machine must not turn a provable obligation into an alarm. (Refutations with a model
	// and vacuity canaries are final.)
	retried := 0
	for i, o := range outs {
		if o.Result == "proved" || o.Result == "refuted" || o.Obl.MustFail || retried >= opts.MaxRetry {
			continue
		}
		if opts.ExpectedToFail != nil && opts.ExpectedToFail(o.Obl.Name) {
			continue
		}
		retried++
		ropts := opts
		ropts.TimeoutMs = opts.TimeoutMs * 3
		ropts.noParts = true
		if o.File != "" {
			os.Remove(o.File)
		}
		r := dischargeOne(i, o.Obl, ropts)
		r.Ms += o.Ms
		r.Per["retry"] = "yes"
		outs[i] = r
	}
	return outs
}

func dischargeOne(i int, o *Obligation, opts SolveOpts) *Outcome {
	res := dischargeGoal(i, o, o.Goal, "", opts)
	if res.Result == "proved" || o.MustFail || len(o.Parts) < 2 || res.Result == "refuted" || opts.noParts || (opts.ExpectedToFail != nil && opts.ExpectedToFail(o.Name)) {
		return res
	}
	// fallback: prove the conjuncts one by one
	start := time.Now()
	allOK := true
	failed := ""
	var firstFail *Outcome
	for k, p := range o.Parts {
		r := dischargeGoal(i, o, p, fmt.Sprintf("_part%d", k), opts)
		if r.Result != "proved" {
			allOK = false
			failed += fmt.Sprintf(" conjunct %d: %s;", k, r.Result)
			if firstFail == nil {
				firstFail = r
			} else if r.File != "" {
				os.Remove(r.File)
			}
			break // one failing conjunct is enough to name
		}
	}
	if allOK {
		res.Result = "proved"
		res.Backend = "conjuncts"
		res.Ms += time.Since(start).Milliseconds()
		if res.File != "" && !opts.KeepQueries {
			os.Remove(res.File)
			res.File = ""
		}
		return res
	}
	if firstFail != nil {
		if res.File != "" {
			os.Remove(res.File)
		}
		firstFail.Per["failing"] = failed
		firstFail.Ms += res.Ms
		return firstFail
	}
	return res
}

func dischargeGoal(i int, o *Obligation, goal Term, suffix string, opts SolveOpts) *Outcome {
	res := &Outcome{Obl: o, Per: map[string]string{}}
	text := o.Ctx.Render(o.Assumptions, goal, true, o.Inputs)
	file := filepath.Join(opts.Dir, fmt.Sprintf("q%04d_%s%s.smt2", i, mangle(truncate(o.Name, 80)), suffix))
	header := fmt.Sprintf("; obligation %s\n; %s\n; at %s\n", o.Name, strings.ReplaceAll(o.Desc, "\n", " "), o.Pos)
	if err := os.WriteFile(file, []byte(header+text), 0o644); err != nil {
		res.Result = "error"
		return res
	}
	res.File = file
	timeout := opts.TimeoutMs
	use := solvers
	if o.MustFail {
		timeout = 1000
		use = solvers[:2]
	}
	start := time.Now()
	ctx, cancel := context.WithCancel(context.Background())
	defer cancel()
	type ans struct {
		solver, answer, out string
	}
	ch := make(chan ans, len(use)+1)
	nproc := len(use)
	// sliced variant: the same goal without the quantified path facts (sound for proving: fewer
	// hypotheses). Only an "unsat" answer of this variant is used.
	if !o.MustFail {
		var slim []Term
		dropped := 0
		for _, a := range o.Assumptions {
			if strings.Contains(a.S, "(forall ") || strings.Contains(a.S, "(exists ") {
				dropped++
				continue
			}
			slim = append(slim, a)
		}
		if dropped > 0 {
			file2 := strings.TrimSuffix(file, ".smt2") + "_slim.smt2"
			if err := os.WriteFile(file2, []byte(header+o.Ctx.Render(slim, goal, false, nil)), 0o644); err == nil {
				nproc++
				go func() {
					a, out := runSolver(ctx, solvers[0], file2, timeout)
					os.Remove(file2)
					if a != "unsat" {
						a = "unknown"
					}
					ch <- ans{"z3-new(sliced)", a, out}
				}()
			}
		}
	}
	for _, s := range use {
		go func(s solverSpec) {
			a, out := runSolver(ctx, s, file, timeout)
			ch <- ans{s.name, a, out}
		}(s)
	}
	unsatCount := 0
	var satAns *ans
	done := 0
	// thorough tier: after a first proof a second back end gets three times as long as the first needed
	// (plus two seconds) to agree; a back end that cannot decide the query at all is not waited for
	var second <-chan time.Time
	for done < nproc {
		var a ans
		select {
		case a = <-ch:
		case <-second:
			done = nproc
			continue
		}
		done++
		if a.answer == "unsat" && unsatCount == 0 && opts.RequireTwo {
			second = time.After(3*time.Since(start) + 2*time.Second)
		}
		res.Per[a.solver] = a.answer
		if a.answer == "unsat" {
			unsatCount++
			if res.Backend == "" {
				res.Backend = a.solver
				res.Ms = time.Since(start).Milliseconds()
			}
			if !opts.RequireTwo || unsatCount >= 2 {
				break
			}
		}
		if a.answer == "sat" && satAns == nil {
			aa := a
			satAns = &aa
			if !opts.RequireTwo {
				// a model from one solver is enough to stop waiting for "unknown" from the others
				if unsatCount == 0 {
					break
				}
			}
		}
	}
	cancel()
	switch {
	case unsatCount > 0 && satAns != nil:
		res.Result = "error" // solvers disagree: engine error
	case unsatCount > 0:
		res.Result = "proved"
		if opts.RequireTwo && unsatCount < 2 {
			res.AllAgree = false
		} else {
			res.AllAgree = true
		}
	case satAns != nil:
		res.Result = "refuted"
		res.Backend = satAns.solver
		res.Ms = time.Since(start).Milliseconds()
		if idx := strings.Index(satAns.out, "\n"); idx >= 0 {
			res.Model = strings.TrimSpace(satAns.out[idx+1:])
		}
	default:
		res.Result = "unknown"
		res.Ms = time.Since(start).Milliseconds()
	}
	if res.Result == "proved" && !o.MustFail && !opts.KeepQueries {
		os.Remove(file)
		res.File = ""
	}
	if o.MustFail && res.Result != "proved" && !opts.KeepQueries {
		os.Remove(file)
		res.File = ""
	}
	return res
}
