package symex

import (
	"fmt"
	"go/ast"
	"go/token"
	"go/types"
	"sort"
	"strings"
)

// loopCtx carries the ghost variables of the loop being cut, for invariants.
type loopCtx struct {
	idx     *Term // $i for slice/int ranges
	visited *Term // $visited for map ranges
	key     *Term
	rangeV  *Term // the ranged value evaluated once ($range)
	keyT    types.Type
	rangeT  types.Type
	outer   *loopCtx // the enclosing cut loop of the same function, for $outervisited
}

// modSet is what a loop body may modify on a path that reaches the back edge.
type modSet struct {
	vars   map[*types.Var]bool
	heaps  map[string]Sort
	all    bool
	allocs bool
	calls  map[string]bool // names of functions that may be called (ghost call counters)
}

func newModSet() *modSet {
	return &modSet{vars: map[*types.Var]bool{}, heaps: map[string]Sort{}, calls: map[string]bool{}}
}

// isForEachLit: a call x.ForEach(func(e T) error {...}) of an external iterator with a literal callback;
// such a call is cut like a loop (its ordinal counts with the syntactic loops, in source order).
func isForEachLit(call *ast.CallExpr) *ast.FuncLit {
	sel, ok := ast.Unparen(call.Fun).(*ast.SelectorExpr)
	if !ok || sel.Sel.Name != "ForEach" || len(call.Args) != 1 {
		return nil
	}
	lit, _ := ast.Unparen(call.Args[0]).(*ast.FuncLit)
	return lit
}

func (x *Exec) loopOrdinal(s ast.Node) int {
	fr := x.top()
	if fr.loopOrds == nil {
		fr.loopOrds = map[ast.Node]int{}
		n := 0
		ast.Inspect(fr.fi.Body(), func(nd ast.Node) bool {
			switch l := nd.(type) {
			case *ast.FuncLit:
				return false
			case *ast.CallExpr:
				if isForEachLit(l) != nil {
					fr.loopOrds[l] = n
					n++
					return false
				}
			case *ast.ForStmt:
				fr.loopOrds[l] = n
				n++
			case *ast.RangeStmt:
				fr.loopOrds[l] = n
				n++
			}
			return true
		})
	}
	return fr.loopOrds[s]
}

func (x *Exec) loopInvs(s ast.Node) ([]*Clause, *Clause) {
	fr := x.top()
	if !fr.top || x.contract == nil {
		return nil, nil
	}
	ord := x.loopOrdinal(s)
	return x.contract.Invs[ord], x.contract.Decreases[ord]
}

func (x *Exec) execFor(s *ast.ForStmt, st *State) flow {
	if s.Init != nil {
		f := x.execStmt(s.Init, st)
		if f.normal == nil {
			return f
		}
		st = f.normal
	}
	if invs, _ := x.loopInvs(s); len(invs) == 0 && s.Cond != nil {
		if out, ok := x.tryUnroll(s, st); ok {
			return out
		}
	}
	return x.cutLoop(s, st, s.Cond, s.Post, s.Body, nil, nil)
}

// tryUnroll unrolls a for loop whose condition folds to a literal under the current state
// (reflection loops over a struct's fields, DESIGN.md 3.5). At most 64 iterations.
func (x *Exec) tryUnroll(s *ast.ForStmt, st *State) (flow, bool) {
	probe := st.clone()
	nObl := len(x.obls)
	c := x.eval(s.Cond, probe)
	x.obls = x.obls[:nObl]
	if c.S != "true" && c.S != "false" {
		return flow{}, false
	}
	cur := st
	var exits []*State
	for iter := 0; iter < 64; iter++ {
		if cur == nil {
			break
		}
		c := x.eval(s.Cond, cur)
		if c.S == "false" {
			exits = append(exits, cur)
			cur = nil
			break
		}
		if c.S != "true" {
			panic(unsupported("loop condition stopped being concrete while unrolling"))
		}
		pre := cur.clone()
		f := x.execBlock(s.Body.List, cur)
		exits = append(exits, f.brk...)
		cur = x.join(pre, append([]*State{f.normal}, f.cont...))
		if cur != nil && s.Post != nil {
			pf := x.execStmt(s.Post, cur)
			cur = pf.normal
		}
	}
	if cur != nil {
		panic(unsupported("loop not finished after 64 unrolled iterations"))
	}
	return flow{normal: x.join(st, exits)}, true
}

// rangeSpec describes a range loop for cutLoop.
type rangeSpec struct {
	stmt   *ast.RangeStmt
	kind   string // slice, map, int, string
	val    Term   // ranged value
	typ    types.Type
	keyVar *types.Var
	valVar *types.Var
	// kind "foreach": the callback literal, the element type and the synthetic result variable
	lit    *FuncInfo
	elemT  types.Type
	resVar *types.Var
}

func (x *Exec) execRange(s *ast.RangeStmt, st *State) flow {
	rt := x.typeOf(s.X)
	rs := &rangeSpec{stmt: s, typ: rt}
	getVar := func(e ast.Expr) *types.Var {
		if e == nil {
			return nil
		}
		id, ok := e.(*ast.Ident)
		if !ok {
			panic(unsupported("range target is not an identifier"))
		}
		if id.Name == "_" {
			return nil
		}
		if s.Tok == token.DEFINE {
			v, _ := x.info().Defs[id].(*types.Var)
			return v
		}
		v, _ := x.info().Uses[id].(*types.Var)
		return v
	}
	rs.keyVar, rs.valVar = getVar(s.Key), getVar(s.Value)
	// unroll ranges over literals
	if cl, ok := s.X.(*ast.CompositeLit); ok {
		if _, isSlice := rt.Underlying().(*types.Slice); isSlice && len(cl.Elts) <= 16 {
			inv, _ := x.loopInvs(s)
			if len(inv) == 0 {
				return x.unrollRange(s, cl, rs, st)
			}
		}
	}
	rs.val = x.eval(s.X, st)
	if n, ok := litInt(rs.val); ok && n >= 0 && n <= 64 && isIntType(rt) {
		if inv, _ := x.loopInvs(s); len(inv) == 0 {
			return x.unrollIntRange(s, rs, int(n), st)
		}
	}
	switch u := rt.Underlying().(type) {
	case *types.Slice, *types.Array:
		rs.kind = "slice"
	case *types.Map:
		rs.kind = "map"
	case *types.Basic:
		if u.Info()&types.IsInteger != 0 {
			rs.kind = "int"
		} else {
			panic(unsupported("range over string"))
		}
	default:
		panic(unsupported("range over " + rt.String()))
	}
	return x.cutLoop(s, st, nil, nil, s.Body, rs, nil)
}

func (x *Exec) unrollRange(s *ast.RangeStmt, cl *ast.CompositeLit, rs *rangeSpec, st *State) flow {
	et := elemTypeOf(rs.typ)
	cur := st
	var exits []*State
	base := st
	_ = base
	for i, el := range cl.Elts {
		if cur == nil {
			break
		}
		if rs.keyVar != nil {
			x.declVar(cur, rs.keyVar, intLit(int64(i)))
		}
		if rs.valVar != nil {
			var v Term
			if c2, ok := el.(*ast.CompositeLit); ok && c2.Type == nil {
				v = x.evalElidedLit(c2, cur, et)
			} else {
				v = x.evalTo(el, cur, et)
			}
			x.declVar(cur, rs.valVar, v)
		}
		pre := cur.clone()
		f := x.execBlock(s.Body.List, cur)
		exits = append(exits, f.brk...)
		cur = x.join(pre, append([]*State{f.normal}, f.cont...))
	}
	// all exits extend st's pc
	out := x.joinLoose(st, append(exits, cur))
	return flow{normal: out}
}

func (x *Exec) unrollIntRange(s *ast.RangeStmt, rs *rangeSpec, n int, st *State) flow {
	cur := st
	var exits []*State
	for i := 0; i < n; i++ {
		if cur == nil {
			break
		}
		if rs.keyVar != nil {
			x.bindRangeVar(cur, rs.keyVar, intLit(int64(i)), s.Tok)
		}
		pre := cur.clone()
		f := x.execBlock(s.Body.List, cur)
		exits = append(exits, f.brk...)
		cur = x.join(pre, append([]*State{f.normal}, f.cont...))
	}
	return flow{normal: x.join(st, append(exits, cur))}
}

// joinLoose joins states that all extend base.pc (base itself is not mutated by the callers).
func (x *Exec) joinLoose(base *State, ss []*State) *State { return x.join(base, ss) }

// cutLoop cuts a loop at its head (DESIGN.md 3.7 "Loops").
func (x *Exec) cutLoop(node ast.Node, st *State, cond ast.Expr, post ast.Stmt, body *ast.BlockStmt, rs *rangeSpec, _ *struct{}) flow {
	invs, dec := x.loopInvs(node)
	ord := x.loopOrdinal(node)
	lc := &loopCtx{outer: x.curLoop}
	// ghost index / visited set
	var idxVar, visVar Term
	if rs != nil {
		rv := rs.val
		lc.rangeV = &rv
		lc.rangeT = rs.typ
		switch rs.kind {
		case "slice", "int", "foreach":
			idxVar = intLit(0)
			lc.idx = &idxVar
		case "map":
			mt := rs.typ.Underlying().(*types.Map)
			visVar = x.constArray(arraySort(x.sortOf(mt.Key()), SBool), tFalse)
			lc.visited = &visVar
			lc.keyT = mt.Key()
		}
	}
	// a counting loop `for i := e; cond; i++`: $i is the counter (so that an invariant written for
	// `for i := range s` still reads after the loop is rewritten in index form, and vice versa)
	var counter *types.Var
	if fs, ok := node.(*ast.ForStmt); ok && rs == nil && fs.Init != nil && fs.Post != nil {
		if as, ok := fs.Init.(*ast.AssignStmt); ok && as.Tok == token.DEFINE && len(as.Lhs) == 1 {
			if id, ok := as.Lhs[0].(*ast.Ident); ok {
				if inc, ok := fs.Post.(*ast.IncDecStmt); ok && inc.Tok == token.INC {
					if pid, ok := inc.X.(*ast.Ident); ok && pid.Name == id.Name {
						if v, ok := x.info().Defs[id].(*types.Var); ok && !x.boxed[v] {
							if b, ok := v.Type().Underlying().(*types.Basic); ok && b.Info()&types.IsInteger != 0 {
								counter = v
							}
						}
					}
				}
			}
		}
	}
	if counter != nil {
		if t, ok := st.vars[counter]; ok {
			idxVar = t
			lc.idx = &idxVar
		} else {
			counter = nil
		}
	}
	label := fmt.Sprintf("loop%d", ord)
	// 1. invariants on entry
	for _, inv := range invs {
		env := x.loopEnv(st, lc)
		g := env.evalBool(inv.Expr)
		x.emitSplit(st, "loop-init", invLabel(label, inv), g, inv.Props, "loop invariant holds on entry: "+inv.Text, node.Pos(), inv.Text)
	}
	// 2. havoc what the body may modify before reaching the back edge
	mods := newModSet()
	if rs != nil && rs.kind == "foreach" {
		x.collectAll(body.List, mods)
	} else {
		x.collectMods(body.List, true, mods)
	}
	if post != nil {
		x.collectMods([]ast.Stmt{post}, true, mods)
	}
	head := st.clone()
	if mods.all {
		x.inFrameEval = true // (forgetting at a loop head is not a write)
		x.havocAll(head)
		x.inFrameEval = false
	} else {
		names := make([]string, 0, len(mods.heaps))
		for n := range mods.heaps {
			names = append(names, n)
		}
		sort.Strings(names)
		for _, n := range names {
			x.forgetHeap(head, n, mods.heaps[n])
		}
		if mods.allocs {
			na := x.ctx.Fresh("alloc", SInt)
			head.assume(mk(SBool, ">=", na, head.alloc))
			head.alloc = na
		}
	}
	// ghost call counters and last-error records of the functions the body may call are unknown at
	// the loop head (the others keep their exact value)
	if mods.all {
		x.ghostGenN++
		head.ghostGen = x.ghostGenN
	}
	if head.ghost == nil {
		head.ghost = map[string]Term{}
	}
	{
		var names []string
		for n := range mods.calls {
			names = append(names, n)
		}
		if mods.all {
			for k := range head.ghost {
				if strings.HasPrefix(k, "called:") {
					names = append(names, strings.TrimPrefix(k, "called:"))
				}
			}
		}
		sort.Strings(names)
		for _, n := range names {
			k := "called:" + n
			prev, ok := head.ghost[k]
			if !ok {
				prev = x.ghostDefault(head, k)
			}
			f := x.ctx.Fresh("ghostc", SInt)
			head.assume(mk(SBool, ">=", f, prev))
			head.ghost[k] = f
			head.ghost["lasterr:"+n] = x.ctx.Fresh("ghosterr", SInt)
		}
	}
	var vs []*types.Var
	for v := range mods.vars {
		vs = append(vs, v)
	}
	sort.Slice(vs, func(i, j int) bool { return vs[i].Pos() < vs[j].Pos() })
	for _, v := range vs {
		if _, ok := head.vars[v]; !ok {
			continue // declared inside the loop
		}
		if x.boxed[v] {
			continue // lives in the heap (already havocked through its heap array)
		}
		f := x.ctx.Fresh(v.Name(), x.sortOf(v.Type()))
		head.vars[v] = f
		for _, fact := range x.typeFacts(f, v.Type()) {
			head.assume(fact)
		}
		x.addReadFacts(head, f, v.Type())
	}
	if rs != nil {
		switch rs.kind {
		case "slice":
			i := x.ctx.Fresh("ri", SInt)
			idxVar = i
			head.assume(and(mk(SBool, "<=", intLit(0), i), mk(SBool, "<=", i, x.sliceLen(rs.val))))
		case "int":
			i := x.ctx.Fresh("ri", SInt)
			idxVar = i
			head.assume(and(mk(SBool, "<=", intLit(0), i), mk(SBool, "<=", i, ite(mk(SBool, ">=", rs.val, intLit(0)), rs.val, intLit(0)))))
		case "foreach":
			i := x.ctx.Fresh("ri", SInt)
			idxVar = i
			head.assume(and(mk(SBool, "<=", intLit(0), i), mk(SBool, "<=", i, x.seqLen(rs.val))))
		case "map":
			visVar = x.ctx.Fresh("visited", visVar.Sort)
		}
	}
	if counter != nil {
		idxVar = head.vars[counter]
		// the counter only ever grows from its initial value when the body does not assign it
		bm := newModSet()
		x.collectAll(body.List, bm)
		if !bm.vars[counter] && !bm.all {
			head.assume(mk(SBool, ">=", idxVar, st.vars[counter]))
		}
	}
	// 2b. frame at the loop head: every write is checked against the assigns clause where it happens
	// (Exec.writeAt), so cells that existed at function entry and that the clause does not mention
	// still hold their entry value at the head of every iteration. This is assumed, not re-proved.
	if x.top().top && x.contract != nil && x.contract.HasAssign && x.entrySt != nil {
		var hn []string
		for n := range head.heap {
			hn = append(hn, n)
		}
		sort.Strings(hn)
		for _, n := range hn {
			if n == "G_bufContent" {
				continue
			}
			if f, ok2 := x.frameFormula(n, head.heap[n]); ok2 {
				head.assume(f)
			}
		}
	}
	// 3. assume invariants at the head
	for _, inv := range invs {
		env := x.loopEnv(head, lc)
		head.assume(env.evalBool(inv.Expr))
	}
	var decAtHead Term
	if dec != nil {
		env := x.loopEnv(head, lc)
		decAtHead, _ = env.eval(dec.Expr)
		decAtHead = x.name(head, "variant", decAtHead)
	}
	// 4. condition
	var c Term
	bodySt := head.clone()
	var keyTerm Term
	switch {
	case rs == nil && cond != nil:
		c = x.eval(cond, bodySt)
		// the condition may add facts; exit state shares them
	case rs == nil:
		c = tTrue
	case rs.kind == "slice":
		c = mk(SBool, "<", idxVar, x.sliceLen(rs.val))
	case rs.kind == "int":
		c = mk(SBool, "<", idxVar, rs.val)
	case rs.kind == "foreach":
		c = mk(SBool, "<", idxVar, x.seqLen(rs.val))
	case rs.kind == "map":
		mt := rs.typ.Underlying().(*types.Map)
		mh := x.mapHeap(mt)
		ks, vsrt := mh.ks, mh.vs
		_, _ = ks, vsrt
		keyTerm = x.ctx.Fresh("rk", ks)
		lc.key = &keyTerm
		has := sel(x.heapGet(bodySt, mh.has, arraySort(SInt, arraySort(ks, SBool))), rs.val)
		c = and(not(eq(rs.val, intLit(0))), sel(has, keyTerm), not(sel(visVar, keyTerm)))
	}
	exitSt := bodySt.clone()
	if rs != nil && rs.kind == "map" {
		mt := rs.typ.Underlying().(*types.Map)
		mh := x.mapHeap(mt)
		ks, vsrt := mh.ks, mh.vs
		_, _ = ks, vsrt
		has := sel(x.heapGet(exitSt, mh.has, arraySort(SInt, arraySort(ks, SBool))), rs.val)
		exitSt.assume(Term{fmt.Sprintf("(forall ((k %s)) (=> (and (not (= %s 0)) (select %s k)) (select %s k)))", ks, rs.val.S, has.S, visVar.S), SBool})
	} else {
		exitSt.assume(not(c))
	}
	base := bodySt.clone() // common prefix of exit and break states
	exits := []*State{}
	if rs != nil && rs.kind == "foreach" {
		x.declVar(exitSt, rs.resVar, intLit(0)) // the iteration ran to its end: ForEach returns nil
	}
	if c.S != "true" {
		exits = append(exits, exitSt)
	}
	// 5. body
	if c.S != "false" {
		bodySt.assume(c)
		if rs != nil {
			switch rs.kind {
			case "slice":
				if rs.keyVar != nil {
					x.bindRangeVar(bodySt, rs.keyVar, idxVar, rs.stmt.Tok)
				}
				if rs.valVar != nil {
					v := sel(x.sliceElemsOf(rs.val), idxVar)
					x.bindRangeVar(bodySt, rs.valVar, v, rs.stmt.Tok)
					x.addReadFacts(bodySt, v, elemTypeOf(rs.typ))
				}
			case "int":
				if rs.keyVar != nil {
					x.bindRangeVar(bodySt, rs.keyVar, idxVar, rs.stmt.Tok)
				}
			case "map":
				mt := rs.typ.Underlying().(*types.Map)
				if rs.keyVar != nil {
					x.bindRangeVar(bodySt, rs.keyVar, keyTerm, rs.stmt.Tok)
				}
				if rs.valVar != nil {
					v, _ := x.mapLookup(bodySt, rs.val, keyTerm, mt)
					x.bindRangeVar(bodySt, rs.valVar, v, rs.stmt.Tok)
				}
			}
		}
		x.loopStack = append(x.loopStack, lc)
		saveLoop := x.curLoop
		x.curLoop = lc
		var f flow
		if rs != nil && rs.kind == "foreach" {
			// one invocation of the callback on the next element; a non-nil result ends the iteration
			// and is what ForEach returns
			el := x.seqAt(rs.val, idxVar, rs.elemT)
			for _, fact := range x.typeFacts(el, rs.elemT) {
				bodySt.assume(fact)
			}
			if _, isPtr := rs.elemT.Underlying().(*types.Pointer); isPtr {
				bodySt.assume(and(mk(SBool, ">", el, intLit(0)), mk(SBool, "<", el, bodySt.alloc)))
			}
			x.addReadFacts(bodySt, el, rs.elemT)
			res := x.inline(nil, rs.lit, nil, nil, []Term{el}, bodySt)
			stop := bodySt.clone()
			stop.assume(not(eq(res[0], intLit(0))))
			x.declVar(stop, rs.resVar, res[0])
			bodySt.assume(eq(res[0], intLit(0)))
			f = flow{normal: bodySt, brk: []*State{stop}}
		} else {
			f = x.execBlock(body.List, bodySt)
		}
		x.curLoop = saveLoop
		x.loopStack = x.loopStack[:len(x.loopStack)-1]
		exits = append(exits, f.brk...)
		backs := append([]*State{}, f.cont...)
		if f.normal != nil {
			backs = append(backs, f.normal)
		}
		for _, b := range backs {
			alive := x.tryPath(func() {
				if post != nil {
					pf := x.execStmt(post, b)
					if pf.normal == nil {
						panic(pathEnd{})
					}
					b = pf.normal
				}
				lc2 := *lc
				if counter != nil {
					if t, ok := b.vars[counter]; ok {
						ni := t
						lc2.idx = &ni
					}
				}
				if rs != nil {
					switch rs.kind {
					case "slice", "int", "foreach":
						ni := mk(SInt, "+", idxVar, intLit(1))
						lc2.idx = &ni
					case "map":
						nv := store(visVar, keyTerm, tTrue)
						lc2.visited = &nv
					}
				}
				for _, inv := range invs {
					env := x.loopEnv(b, &lc2)
					g := env.evalBool(inv.Expr)
					x.emitSplit(b, "loop-step", invLabel(label, inv), g, inv.Props, "loop invariant preserved: "+inv.Text, node.Pos(), inv.Text)
				}
				if dec != nil {
					env := x.loopEnv(b, &lc2)
					d2, _ := env.eval(dec.Expr)
					x.emit(b, "loop-variant", label, and(mk(SBool, "<", d2, decAtHead), mk(SBool, ">=", decAtHead, intLit(0))), dec.Props, "loop variant decreases and is bounded: "+dec.Text, node.Pos()).ClauseText = dec.Text
				}
			})
			_ = alive
		}
	}
	out := x.join(base, exits)
	return flow{normal: out}
}

func invLabel(loop string, inv *Clause) string {
	if inv.Label != "" {
		return loop + "." + inv.Label
	}
	return loop
}

func (x *Exec) bindRangeVar(st *State, v *types.Var, val Term, tok token.Token) {
	if tok == token.DEFINE {
		x.declVar(st, v, val)
	} else {
		x.storeVar(st, v, val)
	}
}

// loopEnv builds the spec environment for loop invariants (locals visible by name).
func (x *Exec) loopEnv(st *State, lc *loopCtx) *specEnv {
	env := x.funcEnv(st)
	env.loop = lc
	env.locals = true
	return env
}

// ---- modified-set analysis (DESIGN.md 3.4 "loop frame") ----

// collectMods adds to ms everything assigned by stmts on a path that can reach the
// back edge. reach says whether control falling off the end of stmts reaches it.
func (x *Exec) collectMods(stmts []ast.Stmt, reach bool, ms *modSet) bool {
	for i := len(stmts) - 1; i >= 0; i-- {
		s := stmts[i]
		switch s := s.(type) {
		case *ast.BranchStmt:
			switch s.Tok {
			case token.BREAK:
				reach = false
			case token.CONTINUE:
				reach = true
			}
		case *ast.ReturnStmt:
			// side effects of the returned expressions do not reach the back edge
			reach = false
		case *ast.IfStmt:
			r1 := x.collectMods(s.Body.List, reach, ms)
			r2 := reach
			if s.Else != nil {
				r2 = x.collectMods([]ast.Stmt{s.Else}, reach, ms)
			}
			reach = r1 || r2
			if reach {
				if s.Init != nil {
					x.modsOfSimple(s.Init, ms)
				}
				x.modsOfExpr(s.Cond, ms)
			}
		case *ast.BlockStmt:
			reach = x.collectMods(s.List, reach, ms)
		case *ast.SwitchStmt:
			any := false
			hasDefault := false
			for _, cc := range s.Body.List {
				cl := cc.(*ast.CaseClause)
				if cl.List == nil {
					hasDefault = true
				}
				if x.collectMods(breakAsFallthrough(cl.Body), reach, ms) {
					any = true
				}
			}
			if !hasDefault && reach {
				any = true
			}
			reach = any
			if reach {
				if s.Init != nil {
					x.modsOfSimple(s.Init, ms)
				}
				if s.Tag != nil {
					x.modsOfExpr(s.Tag, ms)
				}
			}
		case *ast.TypeSwitchStmt:
			any := false
			hasDefault := false
			for _, cc := range s.Body.List {
				cl := cc.(*ast.CaseClause)
				if cl.List == nil {
					hasDefault = true
				}
				if x.collectMods(breakAsFallthrough(cl.Body), reach, ms) {
					any = true
				}
			}
			if !hasDefault && reach {
				any = true
			}
			reach = any
		case *ast.ForStmt:
			// inner loop: everything it assigns counts if control after it can reach our back edge
			if reach || containsContinueOuter(s.Body) {
				if s.Init != nil {
					x.modsOfSimple(s.Init, ms)
				}
				if s.Post != nil {
					x.modsOfSimple(s.Post, ms)
				}
				x.collectAll(s.Body.List, ms)
				reach = true
			}
		case *ast.RangeStmt:
			if reach {
				x.modsOfExpr(s.X, ms)
				if s.Tok == token.ASSIGN {
					x.modsOfLHS(s.Key, ms)
					x.modsOfLHS(s.Value, ms)
				}
				x.collectAll(s.Body.List, ms)
			}
		case *ast.LabeledStmt:
			reach = x.collectMods([]ast.Stmt{s.Stmt}, reach, ms)
		case *ast.ExprStmt:
			if isTerminatingCall(x, s.X) {
				reach = false
			} else if reach {
				x.modsOfExpr(s.X, ms)
			}
		default:
			if reach {
				x.modsOfSimple(s, ms)
			}
		}
	}
	return reach
}

// breakAsFallthrough: inside a switch, break leaves the switch (control continues after it).
func breakAsFallthrough(body []ast.Stmt) []ast.Stmt { return body }

func containsContinueOuter(b *ast.BlockStmt) bool { return false }

func isTerminatingCall(x *Exec, e ast.Expr) bool {
	call, ok := e.(*ast.CallExpr)
	if !ok {
		return false
	}
	if id, ok := call.Fun.(*ast.Ident); ok && id.Name == "panic" {
		return true
	}
	if se, ok := call.Fun.(*ast.SelectorExpr); ok {
		if id, ok := se.X.(*ast.Ident); ok && id.Name == "os" && se.Sel.Name == "Exit" {
			return true
		}
	}
	return false
}

// collectAll adds every assignment in stmts regardless of reachability.
func (x *Exec) collectAll(stmts []ast.Stmt, ms *modSet) {
	for _, s := range stmts {
		ast.Inspect(s, func(n ast.Node) bool {
			switch n := n.(type) {
			case *ast.FuncLit:
				return false
			case *ast.AssignStmt, *ast.IncDecStmt, *ast.DeclStmt:
				x.modsOfSimple(n.(ast.Stmt), ms)
				return false
			case *ast.ExprStmt:
				x.modsOfExpr(n.X, ms)
				return false
			case *ast.RangeStmt:
				if n.Tok == token.ASSIGN {
					x.modsOfLHS(n.Key, ms)
					x.modsOfLHS(n.Value, ms)
				}
				x.modsOfExpr(n.X, ms)
			case *ast.IfStmt:
				x.modsOfExpr(n.Cond, ms)
			case *ast.ReturnStmt:
				for _, r := range n.Results {
					x.modsOfExpr(r, ms)
				}
			}
			return true
		})
	}
}

func (x *Exec) modsOfSimple(s ast.Stmt, ms *modSet) {
	switch s := s.(type) {
	case *ast.AssignStmt:
		for _, l := range s.Lhs {
			x.modsOfLHS(l, ms)
		}
		for _, r := range s.Rhs {
			x.modsOfExpr(r, ms)
		}
	case *ast.IncDecStmt:
		x.modsOfLHS(s.X, ms)
	case *ast.DeclStmt:
		if gd, ok := s.Decl.(*ast.GenDecl); ok {
			for _, sp := range gd.Specs {
				if vs, ok := sp.(*ast.ValueSpec); ok {
					for _, n := range vs.Names {
						if v, ok := x.info().Defs[n].(*types.Var); ok && x.boxed[v] {
							ms.allocs = true
							x.modsOfType(v.Type(), ms)
						}
					}
					for _, v := range vs.Values {
						x.modsOfExpr(v, ms)
					}
				}
			}
		}
	case *ast.ExprStmt:
		x.modsOfExpr(s.X, ms)
	case *ast.DeferStmt:
		x.modsOfExpr(s.Call, ms)
	case *ast.ReturnStmt, *ast.BranchStmt, *ast.EmptyStmt:
	default:
		// compound statements handled by collectMods; be conservative
		x.collectAll([]ast.Stmt{s}, ms)
	}
}

// modsOfType marks the heap arrays of a boxed variable of type t.
func (x *Exec) modsOfType(t types.Type, ms *modSet) {
	t = x.subst(types.Unalias(t))
	if _, ok := t.Underlying().(*types.Struct); ok {
		si := x.structOf(t)
		for i := range si.Fields {
			f := &si.Fields[i]
			ms.heaps[fieldHeapName(si, f)] = arraySort(SInt, f.Sort)
		}
		return
	}
	s := x.sortOf(t)
	ms.heaps[ptrHeapName(s)] = arraySort(SInt, s)
}

func (x *Exec) modsOfLHS(e ast.Expr, ms *modSet) {
	if e == nil {
		return
	}
	switch e := e.(type) {
	case *ast.ParenExpr:
		x.modsOfLHS(e.X, ms)
	case *ast.Ident:
		if e.Name == "_" {
			return
		}
		obj := x.info().Defs[e]
		if obj == nil {
			obj = x.info().Uses[e]
		}
		if v, ok := obj.(*types.Var); ok {
			if x.isGlobal(v) {
				ms.heaps[globalName(v)] = x.sortOf(v.Type())
				return
			}
			if x.boxed[v] {
				x.modsOfType(v.Type(), ms)
				if x.info().Defs[e] != nil {
					ms.allocs = true
				}
				return
			}
			ms.vars[v] = true
		}
	case *ast.StarExpr:
		pt, ok := x.typeOf(e.X).Underlying().(*types.Pointer)
		if ok {
			x.modsOfType(pt.Elem(), ms)
		}
		x.modsOfExpr(e.X, ms)
	case *ast.SelectorExpr:
		sel, ok := x.info().Selections[e]
		if !ok {
			if v, ok := x.info().Uses[e.Sel].(*types.Var); ok && x.isGlobal(v) {
				ms.heaps[globalName(v)] = x.sortOf(v.Type())
			}
			return
		}
		// find the innermost pointer crossing: the field heap written is the last struct reached via pointer
		curT := x.typeOf(e.X)
		var lastHeap string
		var lastSort Sort
		rootIsValue := true
		for _, idx := range sel.Index() {
			curT = x.subst(types.Unalias(curT))
			if p, ok := curT.Underlying().(*types.Pointer); ok {
				si := x.structOf(p.Elem())
				f := &si.Fields[idx]
				lastHeap, lastSort = fieldHeapName(si, f), arraySort(SInt, f.Sort)
				rootIsValue = false
				curT = f.Type
				continue
			}
			si := x.structOf(curT)
			curT = si.Fields[idx].Type
		}
		if rootIsValue {
			x.modsOfLHS(e.X, ms)
		} else {
			ms.heaps[lastHeap] = lastSort
		}
		x.modsOfExpr(e.X, ms)
	case *ast.IndexExpr:
		bt := x.typeOf(e.X)
		switch u := bt.Underlying().(type) {
		case *types.Map:
			mh := x.mapHeap(u)
			ks, vs := mh.ks, mh.vs
			_, _ = ks, vs
			ms.heaps[mh.has] = arraySort(SInt, arraySort(ks, SBool))
			ms.heaps[mh.val] = arraySort(SInt, arraySort(ks, vs))
		case *types.Slice:
			x.modsOfLHS(e.X, ms)
		}
		x.modsOfExpr(e.X, ms)
		x.modsOfExpr(e.Index, ms)
	}
}

// modsOfExpr adds the effects of calls inside an expression.
func (x *Exec) modsOfExpr(e ast.Expr, ms *modSet) {
	if e == nil {
		return
	}
	ast.Inspect(e, func(n ast.Node) bool {
		switch n := n.(type) {
		case *ast.FuncLit:
			return false
		case *ast.CompositeLit:
			t := x.info().TypeOf(n)
			if t != nil {
				if _, ok := t.Underlying().(*types.Map); ok {
					ms.allocs = true
					mt := t.Underlying().(*types.Map)
					mh := x.mapHeap(mt)
					ks, vs := mh.ks, mh.vs
					_, _ = ks, vs
					ms.heaps[mh.has] = arraySort(SInt, arraySort(ks, SBool))
					ms.heaps[mh.val] = arraySort(SInt, arraySort(ks, vs))
				}
			}
		case *ast.UnaryExpr:
			if n.Op == token.AND {
				if cl, ok := n.X.(*ast.CompositeLit); ok {
					ms.allocs = true
					if t := x.info().TypeOf(cl); t != nil {
						x.modsOfType(t, ms)
					}
				}
			}
		case *ast.CallExpr:
			x.modsOfCall(n, ms)
		}
		return true
	})
}

func (x *Exec) modsOfCall(call *ast.CallExpr, ms *modSet) {
	// conversions and builtins
	if tv, ok := x.info().Types[call.Fun]; ok && tv.IsType() {
		return
	}
	if id, ok := call.Fun.(*ast.Ident); ok {
		if b, ok := x.info().Uses[id].(*types.Builtin); ok {
			switch b.Name() {
			case "make", "new":
				ms.allocs = true
				if t := x.info().TypeOf(call); t != nil {
					switch u := t.Underlying().(type) {
					case *types.Map:
						mh := x.mapHeap(u)
						ks, vs := mh.ks, mh.vs
						_, _ = ks, vs
						ms.heaps[mh.has] = arraySort(SInt, arraySort(ks, SBool))
						ms.heaps[mh.val] = arraySort(SInt, arraySort(ks, vs))
					case *types.Pointer:
						x.modsOfType(u.Elem(), ms)
					}
				}
			case "delete":
				if mt, ok := x.typeOf(call.Args[0]).Underlying().(*types.Map); ok {
					mh := x.mapHeap(mt)
					ks, vs := mh.ks, mh.vs
					_, _ = ks, vs
					ms.heaps[mh.has] = arraySort(SInt, arraySort(ks, SBool))
				}
			}
			return
		}
	}
	fn := x.calleeFunc(call)
	if fn == nil {
		// function value / unknown
		if x.isLoggingCall(call) {
			return
		}
		ms.all = true
		return
	}
	if x.isLoggingCall(call) {
		return
	}
	ms.calls[fn.Name()] = true
	ms.calls[extName(fn)] = true
	if c := x.w.ByFunc[fn.Origin()]; c != nil {
		x.modsOfContract(c, call, ms)
		return
	}
	if fi := x.w.Funcs[fn.Origin()]; fi != nil {
		if x.modDepth > 3 {
			ms.all = true
			return
		}
		x.modDepth++
		// inlined callee: collect everything it may assign, in its own package context
		x.frames = append(x.frames, &frame{fi: fi, pkg: fi.Pkg})
		sub := newModSet()
		x.collectAll(fi.Body().List, sub)
		x.frames = x.frames[:len(x.frames)-1]
		x.modDepth--
		for n, s := range sub.heaps {
			ms.heaps[n] = s
		}
		for n := range sub.calls {
			ms.calls[n] = true
		}
		if sub.all {
			ms.all = true
		}
		if sub.allocs {
			ms.allocs = true
		}
		return
	}
	eff := x.externalEffect(fn)
	switch eff {
	case effPure:
	case effAlloc, effFSRead, effFSWrite:
		ms.allocs = true // opaque results; the program heap is untouched (file-system effects are ghost state)
	default:
		ms.all = true
	}
}

// modsOfContract: the heap arrays named by a callee's assigns clause.
func (x *Exec) modsOfContract(c *Contract, call *ast.CallExpr, ms *modSet) {
	if !c.HasAssign {
		ms.all = true
		return
	}
	if c.Fresh {
		ms.allocs = true
	}
	for _, a := range c.Assigns {
		names, ok := x.assignHeaps(c, a)
		if !ok {
			ms.all = true
			return
		}
		for n, s := range names {
			ms.heaps[n] = s
		}
	}
}

// ---- ForEach(callback literal) of an external iterator, cut like a range loop ----
// The iterator is an abstract finite sequence seq_at(it, 0..seq_len(it)-1) (assumption: ForEach calls the
// callback once per element, in order, stops at the first non-nil result and returns it, nil otherwise).

func (x *Exec) seqLen(it Term) Term {
	return x.ctx.App("seq_len", SInt, it)
}

func (x *Exec) seqAt(it, i Term, elemT types.Type) Term {
	srt := x.sortOf(elemT)
	return x.ctx.App("seq_at_"+mangle(string(srt)), srt, it, i)
}

func (x *Exec) execForEach(call *ast.CallExpr, lit *ast.FuncLit, recv Term, st *State) []Term {
	sig := x.typeOf(lit).Underlying().(*types.Signature)
	if sig.Params().Len() != 1 || sig.Results().Len() != 1 {
		panic(unsupported("ForEach callback shape"))
	}
	fi := x.w.LitInfo[lit]
	if fi == nil {
		fi = &FuncInfo{Lit: lit, Pkg: x.top().pkg, Name: x.top().fi.Name + "$lit", Sig: sig, Encl: x.top().fi}
	}
	rs := &rangeSpec{kind: "foreach", val: recv, typ: x.typeOf(ast.Unparen(call.Fun).(*ast.SelectorExpr).X), lit: fi, elemT: sig.Params().At(0).Type()}
	rs.resVar = types.NewVar(call.Pos(), x.top().pkg.Types, "$foreach", sig.Results().At(0).Type())
	st.assume(mk(SBool, ">=", x.seqLen(recv), intLit(0)))
	fl := x.cutLoop(call, st, nil, nil, lit.Body, rs, nil)
	if fl.normal == nil {
		panic(pathEnd{})
	}
	*st = *fl.normal
	r := st.vars[rs.resVar]
	delete(st.vars, rs.resVar)
	return []Term{r}
}
