package symex

import (
	"fmt"
	"go/ast"
	"go/token"
	"go/types"
	"sort"
	"strings"
)

// FuncResult is the outcome of generating obligations for one function.
type FuncResult struct {
	Locals      map[string]string // local name -> "ordinal:type"
	Rebound     []string
	Func        string
	Contract    *Contract
	Obligations []*Obligation
	Errors      []string // engine errors (unsupported constructs): UNDECIDED
	Inlined     []string
	Dropped     int
	Ctx         *Ctx
}

// calleeEnv builds the environment in which a callee's contract is evaluated at a call site.
func (x *Exec) calleeEnv(c *Contract, st, pre *State, recv *Term, args []Term, results []Term) *specEnv {
	fi := c.Fn
	env := &specEnv{x: x, st: st, old: pre, binds: map[string]bound{}, pkg: fi.Pkg, lets: c.LetExprs}
	sig := fi.Sig
	if fi.Decl != nil && fi.Decl.Recv != nil && len(fi.Decl.Recv.List) > 0 && len(fi.Decl.Recv.List[0].Names) > 0 && recv != nil {
		env.binds[fi.Decl.Recv.List[0].Names[0].Name] = bound{*recv, sig.Recv().Type()}
	}
	idx := 0
	for _, fld := range fi.FuncType().Params.List {
		t := x.substDeep(fi.Pkg.TypesInfo.TypeOf(fld.Type))
		if _, isEll := fld.Type.(*ast.Ellipsis); isEll {
			t = types.NewSlice(x.substDeep(fi.Pkg.TypesInfo.TypeOf(fld.Type.(*ast.Ellipsis).Elt)))
		}
		if len(fld.Names) == 0 {
			idx++
			continue
		}
		for _, n := range fld.Names {
			if idx < len(args) {
				env.binds[n.Name] = bound{args[idx], t}
			}
			idx++
		}
	}
	x.bindResults(env, fi, results)
	return env
}

// bindResults binds result names: named results, result / result0.., err.
func (x *Exec) bindResults(env *specEnv, fi *FuncInfo, results []Term) {
	if results == nil {
		return
	}
	var rtypes []types.Type
	var rnames []string
	if fi.FuncType().Results != nil {
		for _, fld := range fi.FuncType().Results.List {
			t := x.substDeep(fi.Pkg.TypesInfo.TypeOf(fld.Type))
			if len(fld.Names) == 0 {
				rtypes = append(rtypes, t)
				rnames = append(rnames, "")
				continue
			}
			for _, n := range fld.Names {
				rtypes = append(rtypes, t)
				rnames = append(rnames, n.Name)
			}
		}
	}
	for i := range rtypes {
		if i >= len(results) {
			break
		}
		b := bound{results[i], rtypes[i]}
		env.binds[fmt.Sprintf("result%d", i)] = b
		if rnames[i] != "" && rnames[i] != "_" {
			env.binds[rnames[i]] = b
		}
		if i == 0 {
			env.binds["result"] = b
		}
		if i == len(rtypes)-1 && rtypes[i].String() == "error" {
			if _, taken := env.binds["err"]; !taken || rnames[i] == "" {
				env.binds["err"] = b
			}
		}
	}
}

// callContract performs a modular call: prove requires, havoc assigns, assume ensures.
func (x *Exec) callContract(call *ast.CallExpr, c *Contract, fn *types.Func, recv *Term, args []Term, st *State) []Term {
	fi := c.Fn
	savedTenv := x.tenv
	if len(fi.TArgs) > 0 {
		tp := fi.Obj.Type().(*types.Signature).TypeParams()
		ne := typeEnv{}
		for k, v := range x.tenv {
			ne[k] = v
		}
		for i := 0; i < tp.Len() && i < len(fi.TArgs); i++ {
			ne[tp.At(i)] = fi.TArgs[i]
		}
		x.tenv = ne
	}
	defer func() { x.tenv = savedTenv }()
	pos := token.NoPos
	if call != nil {
		pos = call.Pos()
	}
	// 1. requires
	for _, r := range c.Requires {
		env := x.calleeEnv(c, st, nil, recv, args, nil)
		g := x.specBool(env, r)
		o := x.emit(st, "call-pre", shortFn(fi.Name), g, x.contract.Props, "precondition of "+fi.Name+": "+r.Text, pos)
		o.ClauseText = r.Text
		st.assume(g)
	}
	// termination: a call that can lead back to the function under contract must decrease the measure
	if x.variant0 != nil && c.Variant != nil && x.w.canReach(c, x.contract) {
		env := x.calleeEnv(c, st, nil, recv, args, nil)
		m, _ := env.eval(c.Variant.Expr)
		g := and(mk(SBool, "<", m, *x.variant0), mk(SBool, ">=", *x.variant0, intLit(0)))
		o := x.emit(st, "termination", shortFn(fi.Name), g, x.contract.Props, "recursive call decreases the measure ("+x.contract.Variant.Text+") which is bounded below; callee measure: "+c.Variant.Text, pos)
		o.ClauseText = x.contract.Variant.Text
	}
	// the callee may panic under its panics_if conditions: reaching that is an obligation of the caller
	for _, pc := range c.PanicsIf {
		env := x.calleeEnv(c, st, nil, recv, args, nil)
		cond := x.specBool(env, pc)
		ps := st.clone()
		ps.assume(cond)
		x.tryPath(func() { x.endPanic(ps, "explicit-panic", "panic inside "+fi.Name+": "+pc.Text, pos) })
		st.assume(not(cond))
	}
	pre := st.clone()
	// 2. havoc
	if !c.HasAssign {
		x.havocAll(st)
	} else {
		for _, a := range c.Assigns {
			env := x.calleeEnv(c, pre, nil, recv, args, nil)
			x.havocLocation(env, st, a)
		}
		if c.Fresh {
			na := x.ctx.Fresh("alloc", SInt)
			st.assume(mk(SBool, ">=", na, st.alloc))
			st.alloc = na
		}
	}
	// 3. results
	var results []Term
	sig := fi.Sig
	for i := 0; i < sig.Results().Len(); i++ {
		rt := x.substDeep(sig.Results().At(i).Type())
		v := x.ctx.Fresh("ret_"+shortFn(fi.Name), x.sortOf(rt))
		if c.Pure && fn != nil && recv == nil && !sig.Variadic() {
			// a function declared pure (no receiver, reads no heap): its result is the same uninterpreted
			// function of the arguments that contracts denote by F(args), so that specifications can
			// mention it; the ensures clauses are assumed on top
			name := pureName(fn)
			if sig.Results().Len() > 1 {
				name += fmt.Sprintf("_r%d", i)
			}
			v = x.name(st, "pure", x.ctx.App(name, x.sortOf(rt), args...))
		}
		for _, f := range x.typeFacts(v, rt) {
			st.assume(f)
		}
		x.addReadFacts(st, v, rt)
		results = append(results, v)
	}
	// 4. ensures
	for _, e := range c.Ensures {
		env := x.calleeEnv(c, st, pre, recv, args, results)
		st.assume(x.specBool(env, e))
	}
	// exits_if: the callee may terminate the process under this condition
	for _, e := range c.ExitsIf {
		env := x.calleeEnv(c, pre, nil, recv, args, nil)
		cond := x.specBool(env, e)
		ex := pre.clone()
		ex.assume(cond)
		alive := x.tryPath(func() { x.endExit(ex, intLit(1), "exit inside "+fi.Name, pos) })
		_ = alive
		st.assume(not(cond))
	}
	x.usedContracts[fi.Name] = true
	return results
}

func shortFn(name string) string {
	if i := strings.LastIndex(name, "."); i >= 0 {
		return name[i+1:]
	}
	return name
}

// specBool evaluates a clause, turning spec errors into engine errors.
func (x *Exec) specBool(env *specEnv, c *Clause) (t Term) {
	defer func() {
		if r := recover(); r != nil {
			if sf, ok := r.(specFail); ok {
				panic(unsupported(fmt.Sprintf("contract %s:%d: %s", shortFile(c.File), c.Line, sf.msg)))
			}
			panic(r)
		}
	}()
	return env.evalBool(c.Expr)
}

func shortFile(f string) string {
	if i := strings.Index(f, "/repo/"); i >= 0 {
		return f[i+6:]
	}
	return f
}

// havocLocation forgets the location denoted by an assigns expression.
func (x *Exec) havocLocation(env *specEnv, st *State, a *SpecExpr) {
	defer func() {
		if r := recover(); r != nil {
			if sf, ok := r.(specFail); ok {
				panic(unsupported("assigns clause " + a.String() + ": " + sf.msg))
			}
			panic(r)
		}
	}()
	// T.f : the whole field heap
	if a.Kind == "field" && a.Args[0].Kind == "ident" {
		if _, isBound := env.binds[a.Args[0].Name]; !isBound {
			if tn, ok := env.pkg.Types.Scope().Lookup(a.Args[0].Name).(*types.TypeName); ok {
				si := x.structOf(tn.Type())
				_, f := si.field(a.Name)
				if f == nil {
					panic(specFail{"no field " + a.Name})
				}
				x.havocHeap(st, fieldHeapName(si, f), arraySort(SInt, f.Sort))
				return
			}
		}
	}
	if a.Kind == "ident" && a.Name == "all" {
		x.havocAll(st)
		return
	}
	if a.Kind == "call" && a.Args[0].Kind == "ident" && a.Args[0].Name == "fields" {
		si := x.structOf(x.resolveType(env.pkg, specTypeText(a.Args[1])))
		for i := range si.Fields {
			f := &si.Fields[i]
			x.havocHeap(st, fieldHeapName(si, f), arraySort(SInt, f.Sort))
		}
		return
	}
	if a.Kind == "call" && a.Args[0].Kind == "ident" && a.Args[0].Name == "maps" {
		mt, ok := x.resolveType(env.pkg, specTypeText(a.Args[1])).Underlying().(*types.Map)
		if !ok {
			panic(specFail{"maps() needs a map type"})
		}
		mh := x.mapHeap(mt)
		x.havocHeap(st, mh.has, arraySort(SInt, arraySort(mh.ks, SBool)))
		x.havocHeap(st, mh.val, arraySort(SInt, arraySort(mh.ks, mh.vs)))
		return
	}
	if a.Kind == "ident" {
		if v, ok := env.pkg.Types.Scope().Lookup(a.Name).(*types.Var); ok {
			if _, isBound := env.binds[a.Name]; !isBound {
				x.havocHeap(st, globalName(v), x.sortOf(v.Type()))
				return
			}
		}
	}
	// map contents
	v, t := env.eval(a)
	t = x.subst(types.Unalias(t))
	if mt, ok := t.Underlying().(*types.Map); ok {
		mh := x.mapHeap(mt)
		ks, vs := mh.ks, mh.vs
		_, _ = ks, vs
		hn, vn := mh.has, mh.val
		H := x.heapGet(st, hn, arraySort(SInt, arraySort(ks, SBool)))
		V := x.heapGet(st, vn, arraySort(SInt, arraySort(ks, vs)))
		x.writeAt(st, hn, v, false)
		x.writeAt(st, vn, v, false)
		x.heapSet(st, hn, store(H, v, x.ctx.Fresh("has", arraySort(ks, SBool))))
		x.heapSet(st, vn, store(V, v, x.ctx.Fresh("val", arraySort(ks, vs))))
		return
	}
	switch a.Kind {
	case "field":
		base, bt := env.eval(a.Args[0])
		bt = x.subst(types.Unalias(bt))
		p, ok := bt.Underlying().(*types.Pointer)
		if !ok {
			panic(specFail{"assigns target must be reached through a pointer"})
		}
		si := x.structOf(p.Elem())
		_, f := si.field(a.Name)
		if f == nil {
			panic(specFail{"no field " + a.Name})
		}
		hn := fieldHeapName(si, f)
		H := x.heapGet(st, hn, arraySort(SInt, f.Sort))
		x.writeAt(st, hn, base, false)
		x.heapSet(st, hn, store(H, base, x.ctx.Fresh(f.Name, f.Sort)))
		return
	case "unary":
		if a.Op == "*" {
			p, pt := env.eval(a.Args[0])
			elem := pt.Underlying().(*types.Pointer).Elem()
			if _, isStruct := elem.Underlying().(*types.Struct); isStruct {
				si := x.structOf(elem)
				for i := range si.Fields {
					f := &si.Fields[i]
					hn := fieldHeapName(si, f)
					H := x.heapGet(st, hn, arraySort(SInt, f.Sort))
					x.writeAt(st, hn, p, false)
					x.heapSet(st, hn, store(H, p, x.ctx.Fresh(f.Name, f.Sort)))
				}
				return
			}
			s := x.sortOf(elem)
			hn := ptrHeapName(s)
			H := x.heapGet(st, hn, arraySort(SInt, s))
			x.writeAt(st, hn, p, false)
			x.heapSet(st, hn, store(H, p, x.ctx.Fresh("pointee", s)))
			return
		}
	}
	panic(specFail{"unsupported assigns target"})
}

// assignHeaps: heap array names an assigns expression can touch (for loop frames).
func (x *Exec) assignHeaps(c *Contract, a *SpecExpr) (out map[string]Sort, ok bool) {
	defer func() {
		if r := recover(); r != nil {
			ok = false
		}
	}()
	out = map[string]Sort{}
	fi := c.Fn
	if a.Kind == "ident" && a.Name == "all" {
		return nil, false
	}
	if a.Kind == "call" && a.Args[0].Kind == "ident" && a.Args[0].Name == "fields" {
		si := x.structOf(x.resolveType(fi.Pkg, specTypeText(a.Args[1])))
		for i := range si.Fields {
			f := &si.Fields[i]
			out[fieldHeapName(si, f)] = arraySort(SInt, f.Sort)
		}
		return out, true
	}
	if a.Kind == "call" && a.Args[0].Kind == "ident" && a.Args[0].Name == "maps" {
		mt := x.resolveType(fi.Pkg, specTypeText(a.Args[1])).Underlying().(*types.Map)
		mh := x.mapHeap(mt)
		out[mh.has] = arraySort(SInt, arraySort(mh.ks, SBool))
		out[mh.val] = arraySort(SInt, arraySort(mh.ks, mh.vs))
		return out, true
	}
	if a.Kind == "field" && a.Args[0].Kind == "ident" {
		if tn, isT := fi.Pkg.Types.Scope().Lookup(a.Args[0].Name).(*types.TypeName); isT {
			si := x.structOf(tn.Type())
			_, f := si.field(a.Name)
			out[fieldHeapName(si, f)] = arraySort(SInt, f.Sort)
			return out, true
		}
	}
	if a.Kind == "ident" {
		if v, isV := fi.Pkg.Types.Scope().Lookup(a.Name).(*types.Var); isV {
			out[globalName(v)] = x.sortOf(v.Type())
			return out, true
		}
	}
	t := x.staticSpecType(c, a)
	if t == nil {
		return nil, false
	}
	t = x.subst(types.Unalias(t))
	if mt, isM := t.Underlying().(*types.Map); isM {
		mh := x.mapHeap(mt)
		ks, vs := mh.ks, mh.vs
		_, _ = ks, vs
		out[mh.has] = arraySort(SInt, arraySort(ks, SBool))
		out[mh.val] = arraySort(SInt, arraySort(ks, vs))
		return out, true
	}
	switch a.Kind {
	case "field":
		bt := x.staticSpecType(c, a.Args[0])
		p, isP := x.subst(types.Unalias(bt)).Underlying().(*types.Pointer)
		if !isP {
			return nil, false
		}
		si := x.structOf(p.Elem())
		_, f := si.field(a.Name)
		out[fieldHeapName(si, f)] = arraySort(SInt, f.Sort)
		return out, true
	case "unary":
		if a.Op == "*" {
			pt := x.staticSpecType(c, a.Args[0])
			elem := pt.Underlying().(*types.Pointer).Elem()
			ms := newModSet()
			x.modsOfType(elem, ms)
			return ms.heaps, true
		}
	}
	return nil, false
}

// staticSpecType computes the Go type of a simple spec expression without a state.
func (x *Exec) staticSpecType(c *Contract, e *SpecExpr) types.Type {
	fi := c.Fn
	switch e.Kind {
	case "ident":
		if le, ok := c.LetExprs[e.Name]; ok {
			return x.staticSpecType(c, le)
		}
		if fi.Decl != nil && fi.Decl.Recv != nil && len(fi.Decl.Recv.List) > 0 && len(fi.Decl.Recv.List[0].Names) > 0 && fi.Decl.Recv.List[0].Names[0].Name == e.Name {
			return fi.Sig.Recv().Type()
		}
		for _, fld := range fi.FuncType().Params.List {
			for _, n := range fld.Names {
				if n.Name == e.Name {
					return fi.Pkg.TypesInfo.TypeOf(fld.Type)
				}
			}
		}
		if o := fi.Pkg.Types.Scope().Lookup(e.Name); o != nil {
			return o.Type()
		}
	case "field":
		bt := x.staticSpecType(c, e.Args[0])
		if bt == nil {
			return nil
		}
		obj, _, _ := types.LookupFieldOrMethod(bt, true, fi.Pkg.Types, e.Name)
		if obj == nil {
			if n := namedOf(bt); n != nil && n.Obj().Pkg() != nil {
				obj, _, _ = types.LookupFieldOrMethod(bt, true, n.Obj().Pkg(), e.Name)
			}
		}
		if obj != nil {
			return obj.Type()
		}
	case "unary":
		if e.Op == "*" {
			if pt := x.staticSpecType(c, e.Args[0]); pt != nil {
				if p, ok := pt.Underlying().(*types.Pointer); ok {
					return p.Elem()
				}
			}
		}
	case "index":
		bt := x.staticSpecType(c, e.Args[0])
		if bt != nil {
			switch u := bt.Underlying().(type) {
			case *types.Map:
				return u.Elem()
			case *types.Slice:
				return u.Elem()
			}
		}
	}
	return nil
}

// ---- top-level verification of one function ----

// VerifyFunc generates the obligations of the function a contract is attached to.
func VerifyFunc(w *World, c *Contract) (res *FuncResult) {
	fi := c.Fn
	x := newExec(w, fi, c)
	x.usedContracts = map[string]bool{}
	x.returnsSeen = map[*Clause]bool{}
	x.boxedDone = map[*FuncInfo]bool{}
	x.opts.NilDeref = c.Safety["nil-deref"]
	res = &FuncResult{Func: fi.Name, Contract: c, Ctx: x.ctx}
	defer func() {
		if r := recover(); r != nil {
			switch e := r.(type) {
			case unsupportedErr:
				res.Errors = append(res.Errors, fmt.Sprintf("%s (at %s)", e.msg, x.posString(x.curPos)))
			case specFail:
				res.Errors = append(res.Errors, fmt.Sprintf("contract error: %s", e.msg))
			case pathEnd:
			default:
				panic(r)
			}
		}
		for _, e := range c.Returns {
			if !x.returnsSeen[e] && len(res.Errors) == 0 {
				res.Errors = append(res.Errors, fmt.Sprintf("returns clause at %s:%d could not be evaluated at any return (a local it mentions does not exist)", shortFile(e.File), e.Line))
			}
		}
		for _, g := range x.guards {
			if x.guardCount[g.field] == 0 && len(res.Errors) == 0 {
				res.Errors = append(res.Errors, fmt.Sprintf("guarded clause matched no access (%s)", g.text))
			}
		}
		for _, sc := range c.Sites {
			if x.siteCount[sc.Site] == 0 && len(res.Errors) == 0 {
				res.Errors = append(res.Errors, fmt.Sprintf("site clause at %s:%d matched no call (%s)", shortFile(sc.File), sc.Line, sc.Site))
			}
		}
		res.Obligations = x.obls
		res.Rebound = x.rebound
		res.Locals = map[string]string{}
		for i, v := range x.localList {
			if _, dup := res.Locals[v.Name()]; !dup {
				res.Locals[v.Name()] = fmt.Sprintf("%d:%s", i, v.Type().String())
			}
		}
		res.Inlined = x.inlined
		res.Errors = append(res.Errors, x.failures...)
	}()
	if fi.Body() == nil {
		res.Errors = append(res.Errors, "no body")
		return res
	}
	// type arguments
	if len(fi.TArgs) > 0 {
		tp := fi.Obj.Type().(*types.Signature).TypeParams()
		for i := 0; i < tp.Len() && i < len(fi.TArgs); i++ {
			x.tenv[tp.At(i)] = fi.TArgs[i]
		}
	}
	fr := &frame{fi: fi, pkg: fi.Pkg, top: true}
	x.frames = []*frame{fr}
	// locals in source order (for rebinding renamed locals)
	ast.Inspect(fi.Body(), func(n ast.Node) bool {
		if id, ok := n.(*ast.Ident); ok {
			if v, ok := fi.Pkg.TypesInfo.Defs[id].(*types.Var); ok && !v.IsField() {
				x.localList = append(x.localList, v)
			}
		}
		return true
	})
	x.computeBoxed(fi)
	st := &State{vars: map[*types.Var]Term{}, heap: map[string]Term{}, gen: x.newGen()}
	st.alloc = x.ctx.Fresh("alloc", SInt)
	st.assume(mk(SBool, ">", st.alloc, intLit(0)))
	// symbolic inputs
	var recvT *Term
	var args []Term
	sig := fi.Sig
	if r := sig.Recv(); r != nil {
		name := "recv"
		if rv := x.recvVarOf(fi); rv != nil {
			name = rv.Name()
		}
		v := x.ctx.Fresh("in_"+name, x.sortOf(r.Type()))
		x.inputFacts(st, v, r.Type())
		if _, isPtr := r.Type().Underlying().(*types.Pointer); isPtr && !c.Safety["nil-receiver"] {
			st.assume(mk(SBool, ">", v, intLit(0))) // methods are verified for non-nil receivers unless the contract says otherwise
		}
		recvT = &v
		if rv := x.recvVarOf(fi); rv != nil {
			x.paramVars = append(x.paramVars, rv)
			x.paramTerms = append(x.paramTerms, v)
			x.paramNames = append(x.paramNames, rv.Name())
		}
	}
	for _, fld := range fi.FuncType().Params.List {
		t := x.substDeep(fi.Pkg.TypesInfo.TypeOf(fld.Type))
		if ell, isEll := fld.Type.(*ast.Ellipsis); isEll {
			t = types.NewSlice(x.substDeep(fi.Pkg.TypesInfo.TypeOf(ell.Elt)))
		}
		names := fld.Names
		if len(names) == 0 {
			names = []*ast.Ident{nil}
		}
		for _, n := range names {
			hint := "arg"
			if n != nil {
				hint = n.Name
			}
			v := x.ctx.Fresh("in_"+hint, x.sortOf(t))
			x.inputFacts(st, v, t)
			args = append(args, v)
			if n != nil && n.Name != "_" {
				if pv, ok := fi.Pkg.TypesInfo.Defs[n].(*types.Var); ok {
					x.paramVars = append(x.paramVars, pv)
					x.paramTerms = append(x.paramTerms, v)
					x.paramNames = append(x.paramNames, n.Name)
				}
			}
		}
	}
	// captured variables of a closure under contract: fresh symbolic values
	if fi.Lit != nil && fi.Encl != nil {
		x.bindCaptured(st, fi)
	}
	x.old = nil
	entry := st.clone()
	x.old = entry
	// axioms of the contract files (assumed facts, counted in the evidence)
	for _, l := range w.Lemmas {
		if !l.Assumed || l.PkgPath != fi.Pkg.PkgPath {
			continue
		}
		func() {
			defer func() {
				if r := recover(); r != nil {
					if sf, ok := r.(specFail); ok {
						panic(unsupported("axiom " + l.Name + ": " + sf.msg))
					}
					panic(r)
				}
			}()
			env := &specEnv{x: x, st: st, binds: map[string]bound{}, pkg: w.Pkgs[l.PkgPath]}
			x.ctx.Axiom(env.evalBool(l.Expr).S)
		}()
	}
	// requires
	for _, r := range c.Requires {
		env := x.funcEnv(st)
		env.old = nil
		st.assume(x.specBool(env, r))
	}
	// vacuity: the precondition must be satisfiable
	cover := x.emit(st, "requires-sat", "", tFalse, c.Props, "precondition and type invariants are satisfiable", fi.Body().Pos())
	cover.MustFail = true
	x.old = st.clone()
	x.entrySt = x.old
	x.resolveGuards(c, fi)
	x.variant0 = nil
	if c.Variant != nil {
		env := x.funcEnv(st)
		env.old = nil
		v, _ := env.eval(c.Variant.Expr)
		x.variant0 = &v
	}
	x.bindParams(fr, fi, recvT, args, st)
	x.tailStmt = nil
	if body := fi.Body().List; len(body) > 0 {
		switch last := body[len(body)-1].(type) {
		case *ast.IfStmt, *ast.SwitchStmt, *ast.TypeSwitchStmt:
			x.tailStmt = last
		}
	}
	fl := x.execBlock(fi.Body().List, st)
	if fl.normal != nil {
		alive := x.tryPath(func() { x.doReturn(fr, fl.normal, nil, fi.Body().End()) })
		_ = alive
	}
	return res
}

func isRepoType(t types.Type) bool {
	n, ok := types.Unalias(t).(*types.Named)
	return ok && isRepoObj(n.Obj())
}

func (x *Exec) inputFacts(st *State, v Term, t types.Type) {
	x.inputFactsDepth(st, v, t, 0)
}

func (x *Exec) inputFactsDepth(st *State, v Term, t types.Type, depth int) {
	for _, f := range x.typeFacts(v, t) {
		st.assume(f)
	}
	t = x.subst(types.Unalias(t))
	if isLogType(t) || isReflectType(t) {
		return
	}
	switch u := t.Underlying().(type) {
	case *types.Map:
		st.assume(mk(SBool, "<", v, st.alloc))
	case *types.Slice:
		a := x.sliceArr(v)
		st.assume(and(mk(SBool, "<=", intLit(0), a), mk(SBool, "<", a, st.alloc)))
	case *types.Pointer:
		st.assume(mk(SBool, "<", v, st.alloc))
		// references reachable from an input were allocated before the call
		if _, ok := u.Elem().Underlying().(*types.Struct); ok && depth < 2 && !isLogType(u.Elem()) && isRepoType(u.Elem()) {
			si := x.structOf(u.Elem())
			for i := range si.Fields {
				f := &si.Fields[i]
				switch f.Type.Underlying().(type) {
				case *types.Pointer, *types.Map, *types.Struct, *types.Slice:
					fv := sel(x.heapGet(st, fieldHeapName(si, f), arraySort(SInt, f.Sort)), v)
					x.inputFactsDepth(st, fv, f.Type, depth+1)
				}
			}
		}
	case *types.Struct:
		// references held in struct values were allocated before the call
		if depth < 3 {
			si := x.structOf(t)
			for i, f := range si.Fields {
				x.inputFactsDepth(st, x.structField(v, si, i), f.Type, depth+1)
			}
		}
	}
}

// bindCaptured gives the free variables of a function literal symbolic values.
func (x *Exec) bindCaptured(st *State, fi *FuncInfo) {
	info := fi.Pkg.TypesInfo
	seen := map[*types.Var]bool{}
	ast.Inspect(fi.Lit.Body, func(n ast.Node) bool {
		id, ok := n.(*ast.Ident)
		if !ok {
			return true
		}
		v, ok := info.Uses[id].(*types.Var)
		if !ok || seen[v] || x.isGlobal(v) || v.IsField() {
			return true
		}
		if v.Pos() >= fi.Lit.Pos() && v.Pos() <= fi.Lit.End() {
			return true
		}
		seen[v] = true
		val := x.ctx.Fresh("cap_"+v.Name(), x.sortOf(v.Type()))
		x.inputFacts(st, val, v.Type())
		if x.boxed[v] {
			// captured by reference: lives in the heap
			ref := x.ctx.Fresh("capref_"+v.Name(), SInt)
			st.assume(and(mk(SBool, ">", ref, intLit(0)), mk(SBool, "<", ref, st.alloc)))
			st.vars[v] = ref
		} else {
			st.vars[v] = val
		}
		x.paramVars = append(x.paramVars, v)
		x.paramTerms = append(x.paramTerms, st.vars[v])
		x.paramNames = append(x.paramNames, v.Name())
		return true
	})
}

// checkPost emits the postcondition obligations at a return of the function under contract.
func (x *Exec) checkPost(st *State, fr *frame, pos token.Pos) {
	c := x.contract
	var results []Term
	for _, rv := range fr.results {
		results = append(results, st.vars[rv])
	}
	mkEnv := func() *specEnv {
		env := x.funcEnv(st)
		x.bindResults(env, x.fn, results)
		return env
	}
	for _, e := range c.Ensures {
		// a field-wise schema yields one obligation per field of the struct
		if e.Expr.Kind == "call" && e.Expr.Args[0].Kind == "ident" && e.Expr.Args[0].Name == "fieldwise" && len(e.Expr.Args) == 4 {
			var parts []fieldPart
			func() {
				defer func() {
					if r := recover(); r != nil {
						if sf, ok := r.(specFail); ok {
							panic(unsupported(fmt.Sprintf("contract %s:%d: %s", shortFile(e.File), e.Line, sf.msg)))
						}
						panic(r)
					}
				}()
				parts = mkEnv().fieldwiseParts(e.Expr.Args[1].Name, e.Expr.Args[2], e.Expr.Args[3])
			}()
			for _, p := range parts {
				x.emitSplit(st, "ensures", e.Label+"."+p.Name, p.T, e.Props, "postcondition for field "+p.Name+": "+e.Text, pos, e.Text)
			}
			continue
		}
		g := x.specBool(mkEnv(), e)
		x.emitSplit(st, "ensures", e.Label, g, e.Props, "postcondition: "+e.Text, pos, e.Text)
	}
	for _, e := range c.Returns {
		env := mkEnv()
		env.locals = true
		// a clause about locals that are not yet in scope at an early return does not apply there;
		// it must apply at one return at least (checked when the function is finished)
		var g Term
		skipped := false
		func() {
			defer func() {
				if r := recover(); r != nil {
					if sf, ok := r.(specFail); ok && strings.HasPrefix(sf.msg, "unknown identifier") {
						skipped = true
						return
					}
					panic(r)
				}
			}()
			g = env.evalBool(e.Expr)
		}()
		if skipped {
			continue
		}
		x.returnsSeen[e] = true
		o := x.emit(st, "returns", e.Label, g, e.Props, "at every return: "+e.Text, pos)
		o.ClauseText = e.Text
	}
	// (the frame of the assigns clause is checked at every write: Exec.writeAt)
	x.checkLocksReleased(st, pos)
	// vacuity canary: "ensures false" must not be provable on a reachable return
	if x.canaryCount < 6 {
		x.canaryCount++
		o := x.emit(st, "canary", "", tFalse, c.Props, "an injected 'ensures false' must fail at some return (some return is reachable)", pos)
		o.MustFail = true
	}
}

// emitSplit emits the obligation whole; its conjuncts are kept so that the solver driver can
// fall back to proving them one by one (and name the conjunct that fails).
func (x *Exec) emitSplit(st *State, kind, label string, g Term, props []string, desc string, pos token.Pos, text string) {
	o := x.emit(st, kind, label, g, props, desc, pos)
	o.ClauseText = text
	if parts := splitAnd(g); len(parts) > 1 {
		o.Parts = parts
	}
}

// splitAnd splits a top-level conjunction into its conjuncts.
func splitAnd(t Term) []Term {
	// (forall (B) (=> H (and A1 .. An)))  ==  (and (forall (B) (=> H A1)) ..)
	if strings.HasPrefix(t.S, "(forall ") {
		parts := splitSexpArgs(t.S)
		if len(parts) == 3 && strings.HasPrefix(parts[2], "(=> ") {
			imp := splitSexpArgs(parts[2])
			if len(imp) == 3 && strings.HasPrefix(imp[2], "(and ") {
				var out []Term
				for _, c := range splitAnd(Term{imp[2], SBool}) {
					out = append(out, Term{fmt.Sprintf("(forall %s (=> %s %s))", parts[1], imp[1], c.S), SBool})
				}
				return out
			}
		}
		return []Term{t}
	}
	if !strings.HasPrefix(t.S, "(and ") {
		return []Term{t}
	}
	parts := splitSexpArgs(t.S)
	var out []Term
	for _, p := range parts[1:] {
		out = append(out, splitAnd(Term{p, SBool})...)
	}
	return out
}

// frameLoc is a location the assigns clause permits to change.
type frameLoc struct {
	heap  string
	whole bool
	ref   Term
	// sub: the location is a (nested) field of the struct value held in the cell; each step names the
	// struct and the field that may change at that level (everything else in the cell must stay)
	sub []subStep
}

type subStep struct {
	si  *structInfo
	idx int
}

// sameExceptSub: struct value b equals a except (at most) along the sub-field path.
func (x *Exec) sameExceptSub(a, b Term, path []subStep) Term {
	if len(path) == 0 {
		return tTrue
	}
	st := path[0]
	var cs []Term
	for i := range st.si.Fields {
		fa, fb := x.structField(a, st.si, i), x.structField(b, st.si, i)
		if i == st.idx {
			cs = append(cs, x.sameExceptSub(fa, fb, path[1:]))
		} else {
			cs = append(cs, eq(fa, fb))
		}
	}
	return and(cs...)
}

// fieldLoc resolves a field expression of an assigns clause to (heap, object, sub-field path).
func (x *Exec) fieldLoc(env *specEnv, a *SpecExpr) (string, Term, []subStep) {
	base, bt := env.eval(a.Args[0])
	bt = x.subst(types.Unalias(bt))
	if p, ok := bt.Underlying().(*types.Pointer); ok {
		si := x.structOf(p.Elem())
		_, f := si.field(a.Name)
		return fieldHeapName(si, f), base, nil
	}
	if _, ok := bt.Underlying().(*types.Struct); ok && a.Args[0].Kind == "field" {
		h, r, sub := x.fieldLoc(env, a.Args[0])
		si := x.structOf(bt)
		i, _ := si.field(a.Name)
		return h, r, append(sub, subStep{si, i})
	}
	panic(specFail{"unsupported assigns target " + a.String()})
}

// frameLocs evaluates the assigns clause (in the entry state) to the permitted locations.
func (x *Exec) frameLocs() []frameLoc {
	if x.frameLocsDone {
		return x.frameLocsCache
	}
	c := x.contract
	old := x.entrySt
	var locs []frameLoc
	x.inFrameEval = true
	defer func() { x.inFrameEval = false }()
	envOld := x.funcEnv(old)
	envOld.old = nil
	for _, a := range c.Assigns {
		func() {
			defer func() {
				if r := recover(); r != nil {
					if sf, ok := r.(specFail); ok {
						panic(unsupported("assigns clause " + a.String() + ": " + sf.msg))
					}
					panic(r)
				}
			}()
			if a.Kind == "field" && a.Args[0].Kind == "ident" {
				if _, isBound := envOld.binds[a.Args[0].Name]; !isBound {
					if tn, ok := envOld.pkg.Types.Scope().Lookup(a.Args[0].Name).(*types.TypeName); ok {
						si := x.structOf(tn.Type())
						_, f := si.field(a.Name)
						locs = append(locs, frameLoc{heap: fieldHeapName(si, f), whole: true})
						return
					}
				}
			}
			if a.Kind == "call" && a.Args[0].Kind == "ident" && a.Args[0].Name == "fields" {
				si := x.structOf(x.resolveType(envOld.pkg, specTypeText(a.Args[1])))
				for i := range si.Fields {
					locs = append(locs, frameLoc{heap: fieldHeapName(si, &si.Fields[i]), whole: true})
				}
				return
			}
			if a.Kind == "call" && a.Args[0].Kind == "ident" && a.Args[0].Name == "maps" {
				mt := x.resolveType(envOld.pkg, specTypeText(a.Args[1])).Underlying().(*types.Map)
				mh := x.mapHeap(mt)
				locs = append(locs, frameLoc{heap: mh.has, whole: true}, frameLoc{heap: mh.val, whole: true})
				return
			}
			if a.Kind == "ident" {
				if _, isBound := envOld.binds[a.Name]; !isBound {
					if v, ok := envOld.pkg.Types.Scope().Lookup(a.Name).(*types.Var); ok {
						locs = append(locs, frameLoc{heap: globalName(v), whole: true})
						return
					}
				}
			}
			v, t := envOld.eval(a)
			t = x.subst(types.Unalias(t))
			if mt, ok := t.Underlying().(*types.Map); ok {
				mh := x.mapHeap(mt)
				locs = append(locs, frameLoc{heap: mh.has, ref: v}, frameLoc{heap: mh.val, ref: v})
				return
			}
			switch a.Kind {
			case "field":
				h, r, sub := x.fieldLoc(envOld, a)
				locs = append(locs, frameLoc{heap: h, ref: r, sub: sub})
			case "unary":
				p, pt := envOld.eval(a.Args[0])
				elem := pt.Underlying().(*types.Pointer).Elem()
				ms := newModSet()
				x.modsOfType(elem, ms)
				for h := range ms.heaps {
					locs = append(locs, frameLoc{heap: h, ref: p})
				}
			default:
				panic(specFail{"unsupported assigns target"})
			}
		}()
	}
	x.frameLocsCache, x.frameLocsDone = locs, true
	return locs
}

// frameFormula: heap array n, now cur, agrees with its entry value on every cell that existed at
// entry and is not permitted to change. ok=false when the whole array may change.
func (x *Exec) frameFormula(n string, cur Term) (Term, bool) {
	old := x.entrySt
	was := x.heapGet(old, n, cur.Sort)
	if cur.S == was.S {
		return tTrue, true
	}
	var refs []Term
	var subs []Term
	for _, l := range x.frameLocs() {
		if l.heap == n {
			if l.whole {
				return tTrue, false
			}
			refs = append(refs, l.ref)
			if len(l.sub) > 0 {
				// (several sub-field locations in one cell are treated as "the whole cell may change")
				subs = append(subs, x.sameExceptSub(sel(was, l.ref), sel(cur, l.ref), l.sub))
			}
		}
	}
	if strings.HasPrefix(n, "G_") {
		return eq(cur, was), true
	}
	var ex []string
	for _, r := range refs {
		ex = append(ex, fmt.Sprintf("(not (= r %s))", r.S))
	}
	guard := fmt.Sprintf("(and (< 0 r) (< r %s) %s)", old.alloc.S, strings.Join(ex, " "))
	if len(ex) == 0 {
		guard = fmt.Sprintf("(and (< 0 r) (< r %s))", old.alloc.S)
	}
	q := Term{fmt.Sprintf("(forall ((r Int)) (! (=> %s (= (select %s r) (select %s r))) :pattern ((select %s r))))", guard, cur.S, was.S, cur.S), SBool}
	if len(subs) == 1 {
		return and(q, subs[0]), true
	}
	return q, true
}

// checkFrame: every heap array that differs from the entry state must be permitted by assigns.
func (x *Exec) checkFrame(st *State, pos token.Pos) {
	c := x.contract
	names := map[string]Sort{}
	for n, t := range st.heap {
		names[n] = t.Sort
	}
	keys := make([]string, 0, len(names))
	for n := range names {
		keys = append(keys, n)
	}
	sort.Strings(keys)
	for _, n := range keys {
		if n == "G_bufContent" {
			continue // (the buffer-content ghost heap of the text/template model is not program state)
		}
		goal, ok := x.frameFormula(n, st.heap[n])
		if !ok || goal.S == "true" {
			continue
		}
		x.emit(st, "frame", n, goal, c.Props, "nothing outside the assigns clause changes in "+n, pos)
	}
}

func (x *Exec) checkLocksReleased(st *State, pos token.Pos) {
	for k, v := range st.locks {
		if v.S == "0" {
			continue
		}
		x.emit(st, "lock-released", k, eq(v, intLit(0)), appendUnique(x.contract.Props, "C05"), "lock "+k+" is released at exit", pos)
	}
}

// checkExit: a path that terminates the process must be permitted by exits_if.
func (x *Exec) checkExit(st *State, status Term, desc string, pos token.Pos) {
	c := x.contract
	if len(c.ExitsIf) == 0 && !c.Safety["exits"] {
		return // the contract does not talk about exits
	}
	allowed := tFalse
	for _, e := range c.ExitsIf {
		env := x.funcEnv(st)
		env.locals = true
		allowed = or(allowed, x.specBool(env, e))
	}
	x.emit(st, "exit", "", allowed, c.Props, "process exit only where the contract permits: "+desc, pos)
}

// recordEvent appends an event to the ghost trace (DESIGN.md 3.3).
func (x *Exec) recordEvent(st *State, kind string, args []Term) {
	if st.ghost == nil {
		st.ghost = map[string]Term{}
	}
	x.events = append(x.events, event{kind: kind, args: args})
	n := x.ghostCounter(st, "ev_"+kind)
	for i, a := range args {
		key := fmt.Sprintf("ev_%s_%d", kind, i)
		// ev_kind_i : Array Int sort  (event number -> i-th argument)
		arrSort := arraySort(SInt, a.Sort)
		name := key + "_" + sortKey(a.Sort)
		cur, ok := st.ghost[name]
		if !ok {
			cur = x.ctx.Fresh(name, arrSort)
		}
		st.ghost[name] = x.name(st, name, store(cur, n, a))
	}
}

type event struct {
	kind string
	args []Term
}

// canReach reports whether, in the static call graph restricted to functions that carry a termination
// measure, from can reach to (from == to counts: direct recursion).
func (w *World) canReach(from, to *Contract) bool {
	if w.recEdges == nil {
		w.recEdges = map[*Contract][]*Contract{}
		for _, c := range w.Contracts {
			if c.Variant == nil || c.Fn == nil || c.Fn.Body() == nil || c.Fn.Pkg == nil {
				continue
			}
			info := c.Fn.Pkg.TypesInfo
			cc := c
			ast.Inspect(c.Fn.Body(), func(n ast.Node) bool {
				call, ok := n.(*ast.CallExpr)
				if !ok {
					return true
				}
				var id *ast.Ident
				switch f := ast.Unparen(call.Fun).(type) {
				case *ast.Ident:
					id = f
				case *ast.SelectorExpr:
					id = f.Sel
				}
				if id == nil {
					return true
				}
				if fn, ok := info.Uses[id].(*types.Func); ok {
					if d := w.ByFunc[fn.Origin()]; d != nil && d.Variant != nil {
						w.recEdges[cc] = append(w.recEdges[cc], d)
					}
				}
				return true
			})
		}
	}
	seen := map[*Contract]bool{}
	var dfs func(c *Contract) bool
	dfs = func(c *Contract) bool {
		if c == to {
			return true
		}
		if seen[c] {
			return false
		}
		seen[c] = true
		for _, d := range w.recEdges[c] {
			if dfs(d) {
				return true
			}
		}
		return false
	}
	return dfs(from)
}
