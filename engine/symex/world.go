package symex

import (
	"fmt"
	"go/ast"
	"go/token"
	"go/types"
	"os"
	"path/filepath"
	"regexp"
	"sort"
	"strconv"
	"strings"

	"golang.org/x/tools/go/packages"
)

// FuncInfo is a function body available for verification or inlining.
// GuardClause is "guarded L by K": field L may be accessed only while lock K is held.
type GuardClause struct {
	Loc, Lock *SpecExpr
	Clause    *Clause
}

type FuncInfo struct {
	Obj  *types.Func // nil for literals
	Decl *ast.FuncDecl
	Lit  *ast.FuncLit
	Pkg  *packages.Package
	Name string // display name, e.g. template.(*MethodScope).AllocateName
	Sig  *types.Signature
	// for literals: the enclosing declared function (captured variables resolve there)
	Encl *FuncInfo
	// instantiation of a generic function
	TArgs []types.Type
}

func (f *FuncInfo) Body() *ast.BlockStmt {
	if f.Decl != nil {
		return f.Decl.Body
	}
	if f.Lit == nil {
		return nil
	}
	return f.Lit.Body
}

func (f *FuncInfo) FuncType() *ast.FuncType {
	if f.Decl != nil {
		return f.Decl.Type
	}
	return f.Lit.Type
}

// Clause is one requires/ensures/invariant/site line.
type Clause struct {
	Kind  string
	Label string
	Props []string
	Expr  *SpecExpr
	Text  string
	Loop  int
	Site  string
	Line  int
	File  string
}

type OrderExcept struct {
	Callees map[string]bool
	Reason  string
}

// Contract is the //@ block of one function.
type Contract struct {
	Target    string // as written
	PkgPath   string
	Props     []string
	Requires  []*Clause
	Ensures   []*Clause
	Returns   []*Clause // checked at every return with locals visible; never assumed by callers
	Assigns   []*SpecExpr
	HasAssign bool
	Fresh     bool // may allocate
	Invs      map[int][]*Clause
	Decreases map[int]*Clause
	// OrderAssumed: "loop N: order_assumed <reason>": the order-independence of map-range loop N is not
	// checked (C06); the reason is reported among the unchecked assumptions
	OrderAssumed map[int]string
	// OrderAssumedExpr: "maprange <ranged expression>: order_assumed <reason>" (keyed by the text of the
	// ranged expression, so that adding or removing other loops does not move the assumption)
	OrderAssumedExpr map[string]string
	// OrderExceptExpr: "maprange <expr>: order_except F, G: <reason>": the loop is checked, but what the
	// rule cannot establish about the listed calls of the loop body is assumed (and reported as such)
	OrderExceptExpr map[string]*OrderExcept
	Variant         *Clause // function-level "decreases e": termination measure for (mutually) recursive calls
	Guarded         []*GuardClause
	SortKeys        []*Clause // "sortkey e($elem)": the key by which the function's sort.Slice call orders its slice
	Sites           []*Clause
	ExitsIf         []*Clause
	PanicsIf        []*Clause
	Pure            bool
	Trusted         bool // contract assumed, body not verified (stated in evidence)
	NoInline        bool
	Safety          map[string]bool
	Binding         string // for funcmap entries: "is strings.TrimSpace"
	File            string
	Line            int
	Fn              *FuncInfo
	Lets            []Binder // local abbreviations: name = expr text (Type field holds the expression)
	LetExprs        map[string]*SpecExpr
	ErrDrop         bool
	bindingExpr     ast.Expr
}

// Define is a spec-level macro or uninterpreted spec function.
type Define struct {
	Name    string
	Params  []Binder
	Result  string
	Body    *SpecExpr // nil for uninterpreted
	PkgPath string
	File    string
	Line    int
}

type Lemma struct {
	Name    string
	Props   []string
	Binders []Binder
	Expr    *SpecExpr
	PkgPath string
	Text    string
	Assumed bool // axiom
}

// World is everything loaded for one run.
type World struct {
	Fset      *token.FileSet
	Pkgs      map[string]*packages.Package
	Roots     []*packages.Package
	Funcs     map[*types.Func]*FuncInfo
	Contracts []*Contract
	ByFunc    map[*types.Func]*Contract
	recEdges  map[*Contract][]*Contract
	ByLit     map[*ast.FuncLit]*Contract
	Defines   map[string]*Define // by pkgpath + "." + name, and by bare name
	Lemmas    []*Lemma
	Errors    []string // attachment failures
	RepoDir   string
	LitInfo   map[*ast.FuncLit]*FuncInfo
	// LocalHints: per function, local name -> "ordinal:type" as recorded on the unchanged tree, used to
	// rebind a contract's reference to a local that was merely renamed (DESIGN.md 3.4)
	LocalHints map[string]map[string]string
}

const contractFile = "zz_verif_contracts.go"

// Load loads the packages and their contract files.
func Load(repoDir string, patterns []string, overlay map[string][]byte) (*World, error) {
	fset := token.NewFileSet()
	env := []string{}
	for _, e := range os.Environ() {
		if strings.HasPrefix(e, "GOFLAGS=") || strings.HasPrefix(e, "GOSUMDB=") || strings.HasPrefix(e, "GOTOOLCHAIN=") {
			continue
		}
		env = append(env, e)
	}
	env = append(env, "GOFLAGS=", "GOPROXY=off")
	cfg := &packages.Config{
		Mode:       packages.NeedName | packages.NeedFiles | packages.NeedCompiledGoFiles | packages.NeedImports | packages.NeedDeps | packages.NeedTypes | packages.NeedSyntax | packages.NeedTypesInfo | packages.NeedTypesSizes,
		Dir:        repoDir,
		Fset:       fset,
		BuildFlags: []string{"-tags=verif"},
		Env:        env,
		Overlay:    overlay,
	}
	pkgs, err := packages.Load(cfg, patterns...)
	if err != nil {
		return nil, err
	}
	w := &World{
		Fset: fset, Pkgs: map[string]*packages.Package{}, Funcs: map[*types.Func]*FuncInfo{},
		ByFunc: map[*types.Func]*Contract{}, ByLit: map[*ast.FuncLit]*Contract{}, Defines: map[string]*Define{}, RepoDir: repoDir,
		LitInfo: map[*ast.FuncLit]*FuncInfo{},
	}
	w.Roots = pkgs
	var errs []string
	packages.Visit(pkgs, nil, func(p *packages.Package) {
		w.Pkgs[p.PkgPath] = p
		for _, e := range p.Errors {
			if isRepoPkg(p) {
				errs = append(errs, e.Error())
			}
		}
	})
	if len(errs) > 0 {
		return nil, fmt.Errorf("package errors: %s", strings.Join(errs, "; "))
	}
	for _, p := range w.Pkgs {
		if !isRepoPkg(p) || p.TypesInfo == nil {
			continue
		}
		for _, f := range p.Syntax {
			for _, d := range f.Decls {
				fd, ok := d.(*ast.FuncDecl)
				if !ok || fd.Body == nil {
					continue
				}
				obj, _ := p.TypesInfo.Defs[fd.Name].(*types.Func)
				if obj == nil {
					continue
				}
				w.Funcs[obj] = &FuncInfo{Obj: obj, Decl: fd, Pkg: p, Name: displayName(obj), Sig: obj.Type().(*types.Signature)}
			}
		}
	}
	// contracts of root packages
	for _, p := range pkgs {
		if err := w.loadContracts(p); err != nil {
			return nil, err
		}
	}
	return w, nil
}

func isRepoPkg(p *packages.Package) bool {
	return isRepoPath(p.PkgPath)
}

func displayName(f *types.Func) string {
	sig := f.Type().(*types.Signature)
	pkg := ""
	if f.Pkg() != nil {
		pkg = f.Pkg().Name() + "."
	}
	if r := sig.Recv(); r != nil {
		t := r.Type()
		star := ""
		if p, ok := t.(*types.Pointer); ok {
			t = p.Elem()
			star = "*"
		}
		n := "?"
		if nt, ok := types.Unalias(t).(*types.Named); ok {
			n = nt.Obj().Name()
		}
		return fmt.Sprintf("%s(%s%s).%s", pkg, star, n, f.Name())
	}
	return pkg + f.Name()
}

var kwRe = regexp.MustCompile(`^(requires|ensures|returns|assigns|loop|maprange|site|pure|trusted|noinline|safety|exits_if|decreases|guarded|sortkey|panics_if|props|is|let|errdrop)\b`)

func (w *World) loadContracts(p *packages.Package) error {
	dir := ""
	if len(p.GoFiles) > 0 {
		dir = filepath.Dir(p.GoFiles[0])
	} else {
		return nil
	}
	path := filepath.Join(dir, contractFile)
	data, err := os.ReadFile(path)
	if err != nil {
		return nil // no contracts for this package
	}
	return w.parseContractText(p, path, string(data))
}

type rawBlock struct {
	head  string
	lines []string // clause lines (continuations joined)
	line  int
}

func (w *World) parseContractText(p *packages.Package, path, text string) error {
	var blocks []*rawBlock
	var cur *rawBlock
	for i, ln := range strings.Split(text, "\n") {
		t := strings.TrimSpace(ln)
		if !strings.HasPrefix(t, "//@") {
			continue
		}
		body := strings.TrimSpace(t[3:])
		if body == "" {
			continue
		}
		if c := strings.Index(body, " //"); c >= 0 && !strings.Contains(body[:c], "\"") {
			body = strings.TrimSpace(body[:c])
		}
		first := strings.Fields(body)[0]
		switch first {
		case "func", "funcmap", "closure", "define", "spec", "lemma", "axiom":
			cur = &rawBlock{head: body, line: i + 1}
			blocks = append(blocks, cur)
			continue
		}
		if cur == nil {
			return fmt.Errorf("%s:%d: clause outside a block", path, i+1)
		}
		if kwRe.MatchString(body) {
			cur.lines = append(cur.lines, fmt.Sprintf("%d\x00%s", i+1, body))
		} else {
			if len(cur.lines) == 0 {
				// continuation of the head (define/lemma bodies)
				cur.head += " " + body
			} else {
				cur.lines[len(cur.lines)-1] += " " + body
			}
		}
	}
	for _, b := range blocks {
		if err := w.parseBlock(p, path, b); err != nil {
			return fmt.Errorf("%s:%d: %v", path, b.line, err)
		}
	}
	return nil
}

var headFuncRe = regexp.MustCompile(`^(func|funcmap|closure)\s+(\S+)(.*)$`)
var propsRe = regexp.MustCompile(`props=([A-Z0-9,]+)`)

func (w *World) parseBlock(p *packages.Package, path string, b *rawBlock) error {
	fields := strings.Fields(b.head)
	switch fields[0] {
	case "define", "spec":
		return w.parseDefine(p, path, b)
	case "lemma", "axiom":
		return w.parseLemma(p, path, b)
	}
	m := headFuncRe.FindStringSubmatch(b.head)
	if m == nil {
		return fmt.Errorf("bad block head %q", b.head)
	}
	c := &Contract{Target: m[1] + " " + m[2], PkgPath: p.PkgPath, Invs: map[int][]*Clause{}, Decreases: map[int]*Clause{}, Safety: map[string]bool{}, File: path, Line: b.line, LetExprs: map[string]*SpecExpr{}}
	if pm := propsRe.FindStringSubmatch(m[3]); pm != nil {
		c.Props = strings.Split(pm[1], ",")
	}
	for _, raw := range b.lines {
		parts := strings.SplitN(raw, "\x00", 2)
		lineNo, _ := strconv.Atoi(parts[0])
		body := parts[1]
		kw := kwRe.FindString(body)
		rest := strings.TrimSpace(body[len(kw):])
		cl := &Clause{Kind: kw, Line: lineNo, File: path, Props: c.Props}
		// label and props: kw#label[props]
		if strings.HasPrefix(rest, "#") {
			j := strings.IndexAny(rest, " [")
			if j < 0 {
				j = len(rest)
			}
			cl.Label = rest[1:j]
			rest = strings.TrimSpace(rest[j:])
		}
		if strings.HasPrefix(rest, "[") {
			j := strings.Index(rest, "]")
			cl.Props = strings.Split(strings.ReplaceAll(rest[1:j], " ", ""), ",")
			rest = strings.TrimSpace(rest[j+1:])
		}
		cl.Text = rest
		parse := func(s string) error {
			e, err := ParseSpec(s)
			if err != nil {
				return fmt.Errorf("line %d: %v", lineNo, err)
			}
			cl.Expr = e
			return nil
		}
		switch kw {
		case "requires":
			if err := parse(rest); err != nil {
				return err
			}
			c.Requires = append(c.Requires, cl)
		case "ensures":
			if err := parse(rest); err != nil {
				return err
			}
			c.Ensures = append(c.Ensures, cl)
		case "returns":
			if err := parse(rest); err != nil {
				return err
			}
			c.Returns = append(c.Returns, cl)
		case "guarded":
			i := strings.Index(rest, " by ")
			if i < 0 {
				return fmt.Errorf("line %d: guarded clause needs 'guarded L by K'", lineNo)
			}
			loc, err1 := ParseSpec(strings.TrimSpace(rest[:i]))
			lock, err2 := ParseSpec(strings.TrimSpace(rest[i+4:]))
			if err1 != nil || err2 != nil {
				return fmt.Errorf("line %d: guarded clause: %v %v", lineNo, err1, err2)
			}
			c.Guarded = append(c.Guarded, &GuardClause{Loc: loc, Lock: lock, Clause: cl})
		case "decreases":
			if err := parse(rest); err != nil {
				return err
			}
			cl.Kind = "decreases"
			c.Variant = cl
		case "exits_if":
			if err := parse(rest); err != nil {
				return err
			}
			c.ExitsIf = append(c.ExitsIf, cl)
		case "panics_if":
			if err := parse(rest); err != nil {
				return err
			}
			c.PanicsIf = append(c.PanicsIf, cl)
		case "assigns":
			c.HasAssign = true
			for _, part := range splitTop(rest, ',') {
				part = strings.TrimSpace(part)
				switch part {
				case "", "nothing":
				case "fresh":
					c.Fresh = true
				default:
					e, err := ParseSpec(part)
					if err != nil {
						return fmt.Errorf("line %d: %v", lineNo, err)
					}
					c.Assigns = append(c.Assigns, e)
				}
			}
		case "loop":
			// loop N: invariant e | loop N: decreases e
			colon := strings.Index(rest, ":")
			if colon < 0 {
				return fmt.Errorf("line %d: loop clause needs ':'", lineNo)
			}
			n, err := strconv.Atoi(strings.TrimSpace(rest[:colon]))
			if err != nil {
				return fmt.Errorf("line %d: bad loop ordinal", lineNo)
			}
			r2 := strings.TrimSpace(rest[colon+1:])
			cl.Loop = n
			switch {
			case strings.HasPrefix(r2, "invariant"):
				r2 = strings.TrimSpace(r2[len("invariant"):])
				if strings.HasPrefix(r2, "#") {
					j := strings.IndexAny(r2, " [")
					cl.Label = r2[1:j]
					r2 = strings.TrimSpace(r2[j:])
				}
				if strings.HasPrefix(r2, "[") {
					j := strings.Index(r2, "]")
					cl.Props = strings.Split(strings.ReplaceAll(r2[1:j], " ", ""), ",")
					r2 = strings.TrimSpace(r2[j+1:])
				}
				cl.Text = r2
				if err := parse(r2); err != nil {
					return err
				}
				cl.Kind = "invariant"
				c.Invs[n] = append(c.Invs[n], cl)
			case strings.HasPrefix(r2, "decreases"):
				cl.Text = strings.TrimSpace(r2[len("decreases"):])
				if err := parse(cl.Text); err != nil {
					return err
				}
				cl.Kind = "decreases"
				c.Decreases[n] = cl
			case strings.HasPrefix(r2, "order_assumed"):
				if c.OrderAssumed == nil {
					c.OrderAssumed = map[int]string{}
				}
				c.OrderAssumed[n] = strings.TrimSpace(r2[len("order_assumed"):])
			default:
				return fmt.Errorf("line %d: loop clause must be invariant, decreases or order_assumed", lineNo)
			}
		case "maprange":
			// maprange <expr>: order_assumed <reason>  |  maprange <expr>: order_except F, G, ...: <reason>
			if colon := strings.Index(rest, ": order_assumed"); colon >= 0 {
				if c.OrderAssumedExpr == nil {
					c.OrderAssumedExpr = map[string]string{}
				}
				c.OrderAssumedExpr[strings.TrimSpace(rest[:colon])] = strings.TrimSpace(rest[colon+len(": order_assumed"):])
			} else if colon := strings.Index(rest, ": order_except"); colon >= 0 {
				r2 := strings.TrimSpace(rest[colon+len(": order_except"):])
				c2 := strings.Index(r2, ":")
				if c2 < 0 {
					return fmt.Errorf("line %d: 'maprange <expr>: order_except F, G: <reason>' needs a reason", lineNo)
				}
				ex := &OrderExcept{Reason: strings.TrimSpace(r2[c2+1:]), Callees: map[string]bool{}}
				for _, n := range strings.Split(r2[:c2], ",") {
					if n = strings.TrimSpace(n); n != "" {
						ex.Callees[n] = true
					}
				}
				if c.OrderExceptExpr == nil {
					c.OrderExceptExpr = map[string]*OrderExcept{}
				}
				c.OrderExceptExpr[strings.TrimSpace(rest[:colon])] = ex
			} else {
				return fmt.Errorf("line %d: maprange clause must be 'maprange <expr>: order_assumed <reason>' or 'maprange <expr>: order_except F, G: <reason>'", lineNo)
			}
		case "site":
			// site NAME: expr
			colon := strings.Index(rest, ":")
			if colon < 0 {
				return fmt.Errorf("line %d: site clause needs ':'", lineNo)
			}
			cl.Site = strings.TrimSpace(rest[:colon])
			cl.Text = strings.TrimSpace(rest[colon+1:])
			if err := parse(cl.Text); err != nil {
				return err
			}
			c.Sites = append(c.Sites, cl)
		case "sortkey":
			if err := parse(rest); err != nil {
				return err
			}
			c.SortKeys = append(c.SortKeys, cl)
		case "let":
			eqi := strings.Index(rest, "=")
			if eqi < 0 {
				return fmt.Errorf("line %d: let needs '='", lineNo)
			}
			name := strings.TrimSpace(rest[:eqi])
			e, err := ParseSpec(strings.TrimSpace(rest[eqi+1:]))
			if err != nil {
				return fmt.Errorf("line %d: %v", lineNo, err)
			}
			c.LetExprs[name] = e
		case "pure":
			c.Pure = true
			c.HasAssign = true
		case "trusted":
			c.Trusted = true
		case "noinline":
			c.NoInline = true
		case "errdrop":
			c.ErrDrop = true
		case "safety":
			for _, s := range strings.Fields(strings.ReplaceAll(rest, ",", " ")) {
				c.Safety[s] = true
			}
		case "props":
			c.Props = strings.Split(strings.ReplaceAll(rest, " ", ""), ",")
		case "is":
			c.Binding = rest
		}
	}
	// clauses parsed before a later "props" line inherit
	for _, lst := range [][]*Clause{c.Requires, c.Ensures, c.Returns, c.Sites, c.ExitsIf, c.PanicsIf} {
		for _, cl := range lst {
			if cl.Props == nil {
				cl.Props = c.Props
			}
		}
	}
	for _, lst := range c.Invs {
		for _, cl := range lst {
			if cl.Props == nil {
				cl.Props = c.Props
			}
		}
	}
	for _, cl := range c.Decreases {
		if cl.Props == nil {
			cl.Props = c.Props
		}
	}
	if err := w.attach(p, c, m[1], m[2]); err != nil {
		w.Errors = append(w.Errors, fmt.Sprintf("%s:%d: %s: %v", path, b.line, c.Target, err))
		c.Fn = nil
	}
	w.Contracts = append(w.Contracts, c)
	return nil
}

func splitTop(s string, sep rune) []string {
	var out []string
	depth := 0
	last := 0
	inStr := false
	for i, c := range s {
		switch {
		case c == '"':
			inStr = !inStr
		case inStr:
		case c == '(' || c == '[':
			depth++
		case c == ')' || c == ']':
			depth--
		case c == sep && depth == 0:
			out = append(out, s[last:i])
			last = i + 1
		}
	}
	out = append(out, s[last:])
	return out
}

var methRe = regexp.MustCompile(`^\((\*?)(\w+)\)\.(\w+)$`)
var instRe = regexp.MustCompile(`^(\w+)\[(\w+)\]$`)

// attach resolves a contract to the function it is about.
func (w *World) attach(p *packages.Package, c *Contract, kind, target string) error {
	scope := p.Types.Scope()
	switch kind {
	case "func":
		if m := methRe.FindStringSubmatch(target); m != nil {
			tn, _ := scope.Lookup(m[2]).(*types.TypeName)
			if tn == nil {
				return fmt.Errorf("type %s not found", m[2])
			}
			named, _ := tn.Type().(*types.Named)
			if named == nil {
				return fmt.Errorf("%s is not a named type", m[2])
			}
			for i := 0; i < named.NumMethods(); i++ {
				fn := named.Method(i)
				if fn.Name() != m[3] {
					continue
				}
				_, isPtr := fn.Type().(*types.Signature).Recv().Type().(*types.Pointer)
				if isPtr != (m[1] == "*") {
					return fmt.Errorf("receiver kind of %s changed", target)
				}
				fi := w.Funcs[fn]
				if fi == nil {
					return fmt.Errorf("no body for %s", target)
				}
				c.Fn = fi
				w.ByFunc[fn] = c
				return nil
			}
			return fmt.Errorf("method %s not found", target)
		}
		if m := instRe.FindStringSubmatch(target); m != nil {
			fn, _ := scope.Lookup(m[1]).(*types.Func)
			if fn == nil {
				return fmt.Errorf("function %s not found", m[1])
			}
			base := w.Funcs[fn]
			if base == nil {
				return fmt.Errorf("no body for %s", m[1])
			}
			tv, err := types.Eval(w.Fset, p.Types, token.NoPos, m[2])
			if err != nil {
				return err
			}
			inst := *base
			inst.TArgs = []types.Type{tv.Type}
			inst.Name = base.Name + "[" + m[2] + "]"
			c.Fn = &inst
			w.ByFunc[fn] = c // generic function: contract applies at this instantiation
			return nil
		}
		fn, _ := scope.Lookup(target).(*types.Func)
		if fn == nil {
			return fmt.Errorf("function %s not found", target)
		}
		fi := w.Funcs[fn]
		if fi == nil {
			return fmt.Errorf("no body for %s", target)
		}
		c.Fn = fi
		w.ByFunc[fn] = c
		return nil
	case "funcmap":
		key, err := strconv.Unquote(target)
		if err != nil {
			return fmt.Errorf("funcmap key must be quoted")
		}
		val := w.funcMapEntry(p, "FuncMap", key)
		if val == nil {
			return fmt.Errorf("FuncMap has no key %q", key)
		}
		c.Target = "funcmap " + target
		if lit, ok := val.(*ast.FuncLit); ok {
			fi := &FuncInfo{Lit: lit, Pkg: p, Name: p.Types.Name() + ".FuncMap[" + target + "]", Sig: p.TypesInfo.TypeOf(lit).(*types.Signature)}
			c.Fn = fi
			w.ByLit[lit] = c
			w.LitInfo[lit] = fi
			return nil
		}
		// a direct binding: c.Binding names the expected object
		c.Fn = &FuncInfo{Pkg: p, Name: p.Types.Name() + ".FuncMap[" + target + "]"}
		c.Fn.Lit = nil
		c.bindingExpr = val
		return nil
	case "closure":
		// closure F#n : the n-th function literal inside declared function F (source order)
		parts := strings.Split(target, "#")
		if len(parts) != 2 {
			return fmt.Errorf("closure target must be F#n")
		}
		n, _ := strconv.Atoi(parts[1])
		var encl *FuncInfo
		if m := methRe.FindStringSubmatch(parts[0]); m != nil {
			for fn, fi := range w.Funcs {
				if fi.Pkg == p && fn.Name() == m[3] && strings.HasSuffix(fi.Name, parts[0]) {
					encl = fi
				}
			}
		} else if fn, _ := scope.Lookup(parts[0]).(*types.Func); fn != nil {
			encl = w.Funcs[fn]
		}
		if encl == nil {
			return fmt.Errorf("enclosing function %s not found", parts[0])
		}
		var lits []*ast.FuncLit
		ast.Inspect(encl.Body(), func(nd ast.Node) bool {
			if l, ok := nd.(*ast.FuncLit); ok {
				lits = append(lits, l)
			}
			return true
		})
		if n >= len(lits) {
			return fmt.Errorf("%s has only %d function literals", parts[0], len(lits))
		}
		lit := lits[n]
		fi := &FuncInfo{Lit: lit, Pkg: p, Name: encl.Name + "#" + parts[1], Sig: p.TypesInfo.TypeOf(lit).(*types.Signature), Encl: encl}
		c.Fn = fi
		w.ByLit[lit] = c
		w.LitInfo[lit] = fi
		return nil
	}
	return fmt.Errorf("unknown block kind %s", kind)
}

// funcMapEntry finds the value expression at a string key of a package-level
// composite literal variable.
func (w *World) funcMapEntry(p *packages.Package, varName, key string) ast.Expr {
	for _, f := range p.Syntax {
		for _, d := range f.Decls {
			gd, ok := d.(*ast.GenDecl)
			if !ok {
				continue
			}
			for _, s := range gd.Specs {
				vs, ok := s.(*ast.ValueSpec)
				if !ok {
					continue
				}
				for i, n := range vs.Names {
					if n.Name != varName || i >= len(vs.Values) {
						continue
					}
					cl, ok := vs.Values[i].(*ast.CompositeLit)
					if !ok {
						continue
					}
					for _, el := range cl.Elts {
						kv, ok := el.(*ast.KeyValueExpr)
						if !ok {
							continue
						}
						if bl, ok := kv.Key.(*ast.BasicLit); ok {
							if k, err := strconv.Unquote(bl.Value); err == nil && k == key {
								return kv.Value
							}
						}
					}
				}
			}
		}
	}
	return nil
}

// FuncMapKeys lists the keys of the package-level FuncMap literal.
func (w *World) FuncMapKeys(p *packages.Package, varName string) []string {
	var keys []string
	for _, f := range p.Syntax {
		for _, d := range f.Decls {
			gd, ok := d.(*ast.GenDecl)
			if !ok {
				continue
			}
			for _, s := range gd.Specs {
				vs, ok := s.(*ast.ValueSpec)
				if !ok {
					continue
				}
				for i, n := range vs.Names {
					if n.Name != varName || i >= len(vs.Values) {
						continue
					}
					if cl, ok := vs.Values[i].(*ast.CompositeLit); ok {
						for _, el := range cl.Elts {
							if kv, ok := el.(*ast.KeyValueExpr); ok {
								if bl, ok := kv.Key.(*ast.BasicLit); ok {
									if k, err := strconv.Unquote(bl.Value); err == nil {
										keys = append(keys, k)
									}
								}
							}
						}
					}
				}
			}
		}
	}
	sort.Strings(keys)
	return keys
}

var defineRe = regexp.MustCompile(`^(define|spec)\s+(\w+)\s*\(([^)]*)\)\s*([^=]*?)\s*(?:=\s*(.*))?$`)

func (w *World) parseDefine(p *packages.Package, path string, b *rawBlock) error {
	m := defineRe.FindStringSubmatch(b.head)
	if m == nil {
		return fmt.Errorf("bad define %q", b.head)
	}
	d := &Define{Name: m[2], Result: strings.TrimSpace(m[4]), PkgPath: p.PkgPath, File: path, Line: b.line}
	if strings.TrimSpace(m[3]) != "" {
		for _, ps := range splitTop(m[3], ',') {
			f := strings.Fields(strings.TrimSpace(ps))
			if len(f) < 2 {
				return fmt.Errorf("bad parameter %q in define %s", ps, d.Name)
			}
			d.Params = append(d.Params, Binder{f[0], strings.Join(f[1:], "")})
		}
	}
	if m[1] == "define" {
		if m[5] == "" {
			return fmt.Errorf("define %s needs a body", d.Name)
		}
		e, err := ParseSpec(m[5])
		if err != nil {
			return err
		}
		d.Body = e
	}
	w.Defines[p.PkgPath+"."+d.Name] = d
	return nil
}

var lemmaRe = regexp.MustCompile(`^(lemma|axiom)\s+([\w.]+)\s*(props=[A-Z0-9,]+)?\s*:\s*(.*)$`)

func (w *World) parseLemma(p *packages.Package, path string, b *rawBlock) error {
	m := lemmaRe.FindStringSubmatch(b.head)
	if m == nil {
		return fmt.Errorf("bad lemma %q", b.head)
	}
	e, err := ParseSpec(m[4])
	if err != nil {
		return err
	}
	l := &Lemma{Name: m[2], Expr: e, PkgPath: p.PkgPath, Text: m[4], Assumed: m[1] == "axiom"}
	if m[3] != "" {
		l.Props = strings.Split(strings.TrimPrefix(m[3], "props="), ",")
	}
	w.Lemmas = append(w.Lemmas, l)
	return nil
}

func (w *World) lookupDefine(pkgPath, name string) *Define {
	if d, ok := w.Defines[pkgPath+"."+name]; ok {
		return d
	}
	// defines of other packages are visible by bare name if unique
	var found *Define
	for _, d := range w.Defines {
		if d.Name == name {
			if found != nil && found != d {
				return nil
			}
			found = d
		}
	}
	return found
}

// AssumeScan counts assumption-like constructs in contract files (evidence).
func (w *World) AssumeScan() map[string]int {
	out := map[string]int{"axiom": 0, "trusted": 0}
	for _, l := range w.Lemmas {
		if l.Assumed {
			out["axiom"]++
		}
	}
	for _, c := range w.Contracts {
		if c.Trusted {
			out["trusted"]++
		}
	}
	return out
}

// AssumeNames lists, by name, every axiom of the loaded contract files and every function whose contract
// is trusted rather than verified (the mechanical scan for assumptions that each evidence file carries).
func (w *World) AssumeNames() (axioms, trusted []string) {
	for _, l := range w.Lemmas {
		if l.Assumed {
			axioms = append(axioms, shortPkg(l.PkgPath)+": "+l.Name)
		}
	}
	for _, c := range w.Contracts {
		if c.Trusted {
			trusted = append(trusted, shortPkg(c.PkgPath)+": "+c.Target)
		}
	}
	sort.Strings(axioms)
	sort.Strings(trusted)
	return
}

func shortPkg(p string) string {
	if i := strings.LastIndex(p, "/"); i >= 0 {
		return p[i+1:]
	}
	return p
}

// BindingObject describes what a direct FuncMap binding expression denotes:
// "<pkgpath>.<Name>" or "<pkgpath>.<Name>[<typearg>]".
func (w *World) BindingObject(c *Contract) string {
	if c.bindingExpr == nil || c.Fn == nil {
		return ""
	}
	info := c.Fn.Pkg.TypesInfo
	var describe func(e ast.Expr) string
	describe = func(e ast.Expr) string {
		switch t := ast.Unparen(e).(type) {
		case *ast.Ident:
			if o := info.Uses[t]; o != nil && o.Pkg() != nil {
				return o.Pkg().Path() + "." + o.Name()
			}
		case *ast.SelectorExpr:
			if o := info.Uses[t.Sel]; o != nil && o.Pkg() != nil {
				return o.Pkg().Path() + "." + o.Name()
			}
		case *ast.IndexExpr:
			if tv, ok := info.Types[t.Index]; ok && tv.IsType() {
				return describe(t.X) + "[" + tv.Type.String() + "]"
			}
		}
		return "?" + types.ExprString(e)
	}
	return describe(c.bindingExpr)
}

// isRepoPath: packages whose functions are verified text (the repository's modules, and the module of
// the instance corpus into which mocks are generated on every run).
func isRepoPath(path string) bool {
	return strings.HasPrefix(path, "github.com/vektra/mockery/") || strings.HasPrefix(path, "verifcorpus/") || strings.HasPrefix(path, "example.com/corpus")
}
