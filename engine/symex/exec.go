package symex

import (
	"fmt"
	"go/ast"
	"go/token"
	"go/types"
	"sort"
	"strings"

	"golang.org/x/tools/go/packages"
)

// unsupportedErr is raised (by panic) when the executor meets a construct outside the subset.
type unsupportedErr struct{ msg string }

func unsupported(msg string) unsupportedErr { return unsupportedErr{msg} }
func (u unsupportedErr) Error() string      { return "unsupported: " + u.msg }

// pathEnd is raised to end the current path (after panic/exit was handled).
type pathEnd struct{}

// PC is one path-condition entry. Definitions of fresh constants are unconditional.
type PC struct {
	T   Term
	Def bool
}

type gen struct{ id int }

// State is one symbolic state.
type State struct {
	vars     map[*types.Var]Term
	heap     map[string]Term
	gen      *gen
	pc       []PC
	alloc    Term
	approx   []string
	locks    map[string]Term // lock mode by lock key (DESIGN.md 5.3): 0 none, 1 R, 2 W
	ghost    map[string]Term // ghost components (event counters, fs, ...)
	ghostGen int             // > 0 once a loop was cut: absent call counters are then unknown, not zero
	dead     bool
}

func (s *State) clone() *State {
	n := &State{vars: make(map[*types.Var]Term, len(s.vars)), heap: make(map[string]Term, len(s.heap)), gen: s.gen, alloc: s.alloc, ghostGen: s.ghostGen}
	for k, v := range s.vars {
		n.vars[k] = v
	}
	for k, v := range s.heap {
		n.heap[k] = v
	}
	n.pc = append([]PC(nil), s.pc...)
	n.approx = append([]string(nil), s.approx...)
	if s.locks != nil {
		n.locks = map[string]Term{}
		for k, v := range s.locks {
			n.locks[k] = v
		}
	}
	if s.ghost != nil {
		n.ghost = map[string]Term{}
		for k, v := range s.ghost {
			n.ghost[k] = v
		}
	}
	return n
}

func (s *State) assume(t Term) {
	if t.S == "true" {
		return
	}
	// keep conjuncts separate, so that irrelevant (e.g. quantified) ones can be sliced away per query
	if strings.HasPrefix(t.S, "(and ") {
		for _, c := range splitAnd(t) {
			s.assume(c)
		}
		return
	}
	s.pc = append(s.pc, PC{T: t})
}

func (s *State) define(t Term) { s.pc = append(s.pc, PC{T: t, Def: true}) }

func (s *State) assumptions() []Term {
	out := make([]Term, len(s.pc))
	for i, p := range s.pc {
		out[i] = p.T
	}
	return out
}

// Obligation is one proof obligation.
type Obligation struct {
	Name        string
	Kind        string
	Func        string
	Props       []string
	Assumptions []Term
	Goal        Term
	Ctx         *Ctx
	Approx      []string
	Desc        string
	Pos         string
	Inputs      []Term
	InputNames  []string
	MustFail    bool // vacuity canary: expected NOT to be provable
	MustBeSat   bool // reachability cover: assumptions must be satisfiable (goal=false must fail)
	ClauseText  string
	Parts       []Term // conjuncts of Goal (fallback: proved one by one)
	Replay      *ReplayInfo
}

type frame struct {
	fi           *FuncInfo
	pkg          *packages.Package
	returns      []*retState
	deferred     []*ast.CallExpr
	results      []*types.Var // named or synthesised result variables
	top          bool
	tenv         typeEnv
	loopOrd      int
	recvVar      *types.Var
	labels       map[string]int
	callerSt     *State
	depth        int
	loopOrds     map[ast.Node]int
	litVars      map[*types.Var]*ast.FuncLit
	namedResults bool
}

type retState struct {
	st   *State
	vals []Term
}

// Exec verifies one function against its contract.
type Exec struct {
	lastVarargs []rawArg // the variadic arguments of the call being evaluated, before boxing
	w                 *World
	ctx               *Ctx
	fn                *FuncInfo
	contract          *Contract
	tenv              typeEnv
	sliceElems        map[Sort]Sort
	obls              []*Obligation
	frames            []*frame
	old               *State
	genN              int
	genConsts         map[string]Term
	kindCount         map[string]int
	boxed             map[*types.Var]bool
	paramTerms        []Term
	paramNames        []string
	paramVars         []*types.Var
	resultVars        []*types.Var
	failures          []string // engine errors on some path
	prop              string   // property filter ("" = all)
	globals           map[*types.Var]bool
	inlineSeen        map[*types.Func]int
	siteCount         map[string]int
	fnConsts          map[string]Term
	evCount           int
	opts              Options
	loopHeads         int
	curPos            token.Pos
	specLocals        map[string]*types.Var // name -> local visible for loop invariants
	loopStack         []*loopCtx
	pendingWriteBacks []func()
	maybeNil          map[string]string
	rvals             map[string]*rdesc
	returnsSeen       map[*Clause]bool
	localList         []*types.Var
	recvStatic        types.Type
	ghostGenN         int
	curLoop           *loopCtx
	sitesDone         bool     // the site clauses of the call being modelled were already checked (before a havoc)
	tailStmt          ast.Stmt // the last statement of the function under contract when it is an if/switch
	guards            []guardSpec
	guardCount        map[*types.Var]int
	applyTypes        map[string]types.Type // static types of lastarg(i)/lastres(i)
	variant0          *Term                 // the termination measure at entry of the function under contract
	frameLocsCache    []frameLoc
	frameLocsDone     bool
	freshRefs         map[string]bool
	writeChecked      map[string]bool
	inFrameEval       bool
	rebound           []string
	boxInfo           map[string]boxRec
	rfieldNames       map[string]string
	modDepth          int
	inlined           []string
	boxedDone         map[*FuncInfo]bool
	usedContracts     map[string]bool
	canaryCount       int
	entrySt           *State
	events            []event
}

type Options struct {
	NilDeref bool
}

// rawArg: a variadic argument before its conversion to the parameter's element type.
type rawArg struct {
	t   Term
	typ types.Type
}

func newExec(w *World, fn *FuncInfo, c *Contract) *Exec {
	x := &Exec{rfieldNames: map[string]string{}, freshRefs: map[string]bool{}, writeChecked: map[string]bool{}, w: w, ctx: NewCtx(), fn: fn, contract: c, sliceElems: map[Sort]Sort{}, genConsts: map[string]Term{}, kindCount: map[string]int{}, boxed: map[*types.Var]bool{}, globals: map[*types.Var]bool{}, inlineSeen: map[*types.Func]int{}, siteCount: map[string]int{}, fnConsts: map[string]Term{}, tenv: typeEnv{}, specLocals: map[string]*types.Var{}}
	x.ctx.StrLit("")
	return x
}

func (x *Exec) top() *frame { return x.frames[len(x.frames)-1] }

func (x *Exec) info() *types.Info { return x.top().pkg.TypesInfo }

func (x *Exec) typeOf(e ast.Expr) types.Type {
	t := x.info().TypeOf(e)
	if t == nil {
		panic(unsupported("no type for expression " + x.exprString(e)))
	}
	return x.substDeep(t)
}

// substDeep substitutes type parameters inside composite types where needed.
func (x *Exec) substDeep(t types.Type) types.Type {
	if len(x.tenv) == 0 {
		return t
	}
	switch u := t.(type) {
	case *types.TypeParam:
		return x.subst(u)
	case *types.Slice:
		e := x.substDeep(u.Elem())
		if e != u.Elem() {
			return types.NewSlice(e)
		}
	case *types.Pointer:
		e := x.substDeep(u.Elem())
		if e != u.Elem() {
			return types.NewPointer(e)
		}
	}
	return t
}

func (x *Exec) exprString(e ast.Expr) string { return types.ExprString(e) }

func (x *Exec) posString(p token.Pos) string {
	if !p.IsValid() {
		return ""
	}
	pos := x.w.Fset.Position(p)
	f := pos.Filename
	if i := strings.Index(f, "/repo/"); i >= 0 {
		f = f[i+6:]
	}
	return fmt.Sprintf("%s:%d", f, pos.Line)
}

// ---- heap ----

func (x *Exec) newGen() *gen { x.genN++; return &gen{x.genN} }

func (x *Exec) heapGet(st *State, name string, sort Sort) Term {
	if t, ok := st.heap[name]; ok {
		return t
	}
	key := fmt.Sprintf("%s@%d", name, st.gen.id)
	t, ok := x.genConsts[key]
	if !ok {
		t = x.ctx.Fresh(fmt.Sprintf("%s_g%d", name, st.gen.id), sort)
		x.genConsts[key] = t
	}
	st.heap[name] = t
	return t
}

func (x *Exec) heapSet(st *State, name string, v Term) {
	if len(v.S) > 48 {
		c := x.ctx.Fresh(name, v.Sort)
		st.define(eq(c, v))
		v = c
	}
	st.heap[name] = v
}

// writeAt records that cell ref of heap array name is being written, and checks the write against
// the assigns clause of the function under contract (the frame is checked write by write:
// DESIGN.md 4.1 "frame"). whole=true means the entire array may change.
func (x *Exec) writeAt(st *State, name string, ref Term, whole bool) {
	x.writeAtVal(st, name, ref, whole, nil, nil)
}

// writeAtVal: as writeAt, with the cell's value before and after the write when they are known (needed
// for assigns locations that are sub-fields of a struct value held in the cell).
func (x *Exec) writeAtVal(st *State, name string, ref Term, whole bool, before, after *Term) {
	if x.contract == nil || !x.contract.HasAssign || x.entrySt == nil || x.inFrameEval || name == "G_bufContent" {
		return
	}
	if !whole && x.freshRefs[ref.S] {
		return
	}
	var allowed []Term
	for _, l := range x.frameLocs() {
		if l.heap != name {
			continue
		}
		if l.whole {
			return
		}
		if len(l.sub) > 0 {
			if before == nil || after == nil {
				continue
			}
			allowed = append(allowed, and(eq(ref, l.ref), x.sameExceptSub(*before, *after, l.sub)))
			continue
		}
		allowed = append(allowed, eq(ref, l.ref))
	}
	var goal Term
	if whole {
		goal = tFalse
	} else if strings.HasPrefix(name, "G_") {
		goal = tFalse
	} else {
		// cells that did not exist at entry (or are not objects at all) are not part of the frame
		allowed = append(allowed, mk(SBool, ">=", ref, x.entrySt.alloc), mk(SBool, "<=", ref, intLit(0)))
		goal = or(allowed...)
	}
	if goal.S == "true" {
		return
	}
	key := name + "|" + ref.S + "|" + x.posString(x.curPos)
	if x.writeChecked[key] {
		return
	}
	x.writeChecked[key] = true
	x.emit(st, "frame", name, goal, x.contract.Props, "write to "+name+" is permitted by the assigns clause (or the cell is newly allocated)", x.curPos)
}

// havocAll forgets every heap array (call to an unknown function).
func (x *Exec) havocAll(st *State) {
	if x.contract != nil && x.contract.HasAssign && x.entrySt != nil && !x.inFrameEval {
		x.emit(st, "frame", "everything", tFalse, x.contract.Props, "a callee without an assigns clause (or an unknown function) may modify anything; the assigns clause of this function does not allow that", x.curPos)
	}
	st.heap = map[string]Term{}
	st.gen = x.newGen()
	na := x.ctx.Fresh("alloc", SInt)
	st.assume(mk(SBool, ">=", na, st.alloc))
	st.alloc = na
}

func (x *Exec) havocHeap(st *State, name string, sort Sort) Term {
	x.writeAt(st, name, intLit(0), true)
	return x.forgetHeap(st, name, sort)
}

// forgetHeap replaces a heap array by an unknown one without treating that as a write
// (loop heads: the writes themselves are checked where they happen).
func (x *Exec) forgetHeap(st *State, name string, sort Sort) Term {
	t := x.ctx.Fresh(name, sort)
	st.heap[name] = t
	return t
}

// allocRef returns a fresh reference.
func (x *Exec) allocRef(st *State, hint string) Term {
	r := x.ctx.Fresh("ref_"+hint, SInt)
	x.freshRefs[r.S] = true
	st.define(eq(r, st.alloc))
	na := x.ctx.Fresh("alloc", SInt)
	st.define(eq(na, mk(SInt, "+", st.alloc, intLit(1))))
	st.alloc = na
	return r
}

// name binds a possibly large term to a fresh constant.
func (x *Exec) name(st *State, hint string, t Term) Term {
	if len(t.S) <= 64 {
		return t
	}
	c := x.ctx.Fresh(hint, t.Sort)
	st.define(eq(c, t))
	if why, ok := x.maybeNil[t.S]; ok {
		x.maybeNil[c.S] = why
	}
	return c
}

// ---- obligations ----

func (x *Exec) emit(st *State, kind, label string, goal Term, props []string, desc string, pos token.Pos) *Obligation {
	x.kindCount[kind+label]++
	n := x.kindCount[kind+label]
	name := fmt.Sprintf("%s/%s", x.fn.Name, kind)
	if label != "" {
		name += "#" + label
	}
	if n > 1 || label == "" {
		name += fmt.Sprintf("#%d", n)
	}
	if props == nil {
		props = x.contract.Props
	}
	o := &Obligation{Name: name, Kind: kind, Func: x.fn.Name, Props: props, Assumptions: st.assumptions(), Goal: goal, Ctx: x.ctx, Approx: append([]string(nil), st.approx...), Desc: desc, Pos: x.posString(pos), Inputs: x.paramTerms, InputNames: x.paramNames}
	x.obls = append(x.obls, o)
	return o
}

// safety emits a safety obligation (index, nil-deref, ...) unless trivially true.
func (x *Exec) safety(st *State, kind string, cond Term, desc string, pos token.Pos) {
	if cond.S == "true" {
		return
	}
	props := x.contract.Props
	if x.contract.Safety["props"] {
		props = x.contract.Props
	}
	props = appendUnique(props, "C09")
	x.emit(st, kind, "", cond, props, desc, pos)
	st.assume(cond) // continue on the safe path
}

func appendUnique(xs []string, s string) []string {
	for _, v := range xs {
		if v == s {
			return xs
		}
	}
	out := append([]string(nil), xs...)
	return append(out, s)
}

// ---- joining states (DESIGN.md 3.7 "Branches") ----

func (x *Exec) join(base *State, ss []*State) *State {
	var live []*State
	for _, s := range ss {
		if s != nil && !s.dead {
			live = append(live, s)
		}
	}
	if len(live) == 0 {
		return nil
	}
	if len(live) == 1 {
		return live[0]
	}
	n := base.clone()
	nb := len(base.pc)
	guards := make([]Term, len(live))
	for i, s := range live {
		var conds []Term
		for _, p := range s.pc[nb:] {
			if p.Def {
				n.pc = append(n.pc, p)
			} else {
				conds = append(conds, p.T)
			}
		}
		g := and(conds...)
		if len(g.S) > 40 {
			gc := x.ctx.Fresh("guard", SBool)
			n.define(eq(gc, g))
			g = gc
		}
		guards[i] = g
	}
	n.assume(or(guards...))
	// facts of each path hold under its guard
	for i, s := range live {
		for _, p := range s.pc[nb:] {
			if !p.Def {
				n.assume(implies(guards[i], p.T))
			}
		}
	}
	pick := func(vals []Term) Term {
		r := vals[len(vals)-1]
		for i := len(vals) - 2; i >= 0; i-- {
			r = ite(guards[i], vals[i], r)
		}
		return r
	}
	// variables: a variable declared on some paths only keeps its value on those paths (and is
	// unconstrained on the others), so that contracts guarded by the path condition can mention it
	allVars := map[*types.Var]Sort{}
	for _, s := range live {
		for v, t := range s.vars {
			allVars[v] = t.Sort
		}
	}
	var vlist []*types.Var
	for v := range allVars {
		vlist = append(vlist, v)
	}
	sort.Slice(vlist, func(i, j int) bool {
		if vlist[i].Pos() != vlist[j].Pos() {
			return vlist[i].Pos() < vlist[j].Pos()
		}
		return vlist[i].Name() < vlist[j].Name()
	})
	for _, v := range vlist {
		vals := make([]Term, len(live))
		same := true
		for i, s := range live {
			t, has := s.vars[v]
			if !has {
				t = x.ctx.Fresh("undef_"+v.Name(), allVars[v])
			}
			vals[i] = t
			if t.S != vals[0].S {
				same = false
			}
		}
		if same {
			n.vars[v] = vals[0]
			continue
		}
		m := x.ctx.Fresh(v.Name(), vals[0].Sort)
		n.define(eq(m, pick(vals)))
		n.vars[v] = m
	}
	// heaps
	sameGen := true
	for _, s := range live {
		if s.gen != live[0].gen {
			sameGen = false
		}
	}
	names := map[string]Sort{}
	for _, s := range live {
		for k, t := range s.heap {
			names[k] = t.Sort
		}
	}
	if sameGen {
		n.gen = live[0].gen
	} else {
		n.gen = x.newGen()
	}
	n.heap = map[string]Term{}
	keys := make([]string, 0, len(names))
	for k := range names {
		keys = append(keys, k)
	}
	sort.Strings(keys)
	for _, k := range keys {
		vals := make([]Term, len(live))
		same := true
		for i, s := range live {
			vals[i] = x.heapGet(s, k, names[k])
			if vals[i].S != vals[0].S {
				same = false
			}
		}
		if same {
			n.heap[k] = vals[0]
			continue
		}
		m := x.ctx.Fresh(k, names[k])
		n.define(eq(m, pick(vals)))
		n.heap[k] = m
	}
	// alloc
	{
		vals := make([]Term, len(live))
		same := true
		for i, s := range live {
			vals[i] = s.alloc
			if s.alloc.S != vals[0].S {
				same = false
			}
		}
		if same {
			n.alloc = vals[0]
		} else {
			m := x.ctx.Fresh("alloc", SInt)
			n.define(eq(m, pick(vals)))
			n.alloc = m
		}
	}
	// ghost and locks
	mergeMap := func(get func(*State) map[string]Term, set func(map[string]Term)) {
		ks := map[string]bool{}
		for _, s := range live {
			for k := range get(s) {
				ks[k] = true
			}
		}
		if len(ks) == 0 {
			return
		}
		out := map[string]Term{}
		kk := make([]string, 0, len(ks))
		for k := range ks {
			kk = append(kk, k)
		}
		sort.Strings(kk)
		for _, k := range kk {
			vals := make([]Term, len(live))
			same := true
			// the sort of the entry (from a state that holds it), for a well-sorted default elsewhere
			var srt Sort
			mixed := false
			for _, s := range live {
				if v, ok := get(s)[k]; ok {
					if srt != "" && v.Sort != srt {
						mixed = true
					}
					srt = v.Sort
				}
			}
			if mixed {
				continue // (e.g. "the last result" of calls of differently typed functions: unknown after the join)
			}
			for i, s := range live {
				v, ok := get(s)[k]
				if !ok {
					v = x.ghostDefault(s, k)
					if srt != SInt {
						v = x.ghostDefaultOfSort(k, srt)
					}
				}
				vals[i] = v
				if v.S != vals[0].S {
					same = false
				}
			}
			if same {
				out[k] = vals[0]
			} else {
				m := x.ctx.Fresh("g_"+k, vals[0].Sort)
				n.define(eq(m, pick(vals)))
				out[k] = m
			}
		}
		set(out)
	}
	for _, s := range live {
		if s.ghostGen > n.ghostGen {
			n.ghostGen = s.ghostGen
		}
	}
	mergeMap(func(s *State) map[string]Term { return s.locks }, func(m map[string]Term) { n.locks = m })
	mergeMap(func(s *State) map[string]Term { return s.ghost }, func(m map[string]Term) { n.ghost = m })
	// approximations
	seen := map[string]bool{}
	n.approx = nil
	for _, s := range live {
		for _, a := range s.approx {
			if !seen[a] {
				seen[a] = true
				n.approx = append(n.approx, a)
			}
		}
	}
	return n
}

// ghostDefault is the value of a ghost entry that a state does not hold explicitly: zero before
// any loop was cut, an unknown (non-negative, per loop generation) value afterwards.
func (x *Exec) ghostDefault(s *State, key string) Term {
	if s.ghostGen == 0 || !(strings.HasPrefix(key, "called:") || strings.HasPrefix(key, "lasterr:")) {
		if strings.HasPrefix(key, "lasterr:") {
			return intLit(-1)
		}
		return intLit(0)
	}
	name := fmt.Sprintf("ghost_g%d_%s", s.ghostGen, mangle(key))
	if !x.ctx.declared[name] {
		x.ctx.declRaw(name, fmt.Sprintf("(declare-const %s Int)", name))
		if strings.HasPrefix(key, "called:") {
			x.ctx.Axiom(fmt.Sprintf("(>= %s 0)", name))
		}
	}
	return Term{name, SInt}
}

// ghostDefaultOfSort: the value of a non-integer ghost entry (lock arrays, sets of produced values, last
// function/argument records) on a path that never touched it.
func (x *Exec) ghostDefaultOfSort(key string, s Sort) Term {
	if s == SBool {
		return tFalse
	}
	if strings.HasPrefix(string(s), "(Array ") {
		if _, v := arrayParts(s); v == SBool {
			return x.constArray(s, tFalse)
		} else if v == SInt {
			return x.constArray(s, intLit(0))
		}
	}
	name := "ghostdef_" + mangle(key)
	if !x.ctx.declared[name] {
		x.ctx.declRaw(name, fmt.Sprintf("(declare-const %s %s)", name, s))
	}
	return Term{name, s}
}

// ---- type tags and boxing ----

func typeTagString(t types.Type) string {
	return types.TypeString(t, func(p *types.Package) string { return p.Path() })
}

func (x *Exec) tagOf(t types.Type) Term { return x.ctx.Tag(typeTagString(x.subst(types.Unalias(t)))) }

// box converts a concrete value to an interface value.
func (x *Exec) box(st *State, v Term, from types.Type) Term {
	from = x.subst(types.Unalias(from))
	if b, ok := from.Underlying().(*types.Basic); ok && b.Kind() == types.UntypedNil {
		return intLit(0)
	}
	name := "box_" + mangle(typeTagString(from))
	b := x.ctx.App(name, SInt, v)
	bc := x.name(st, "boxed", b)
	un := x.ctx.App("unbox_"+sortKey(v.Sort), v.Sort, bc)
	st.assume(and(eq(mk(SInt, "dyn", bc), x.tagOf(from)), eq(un, v), mk(SBool, ">", bc, intLit(0))))
	if x.boxInfo == nil {
		x.boxInfo = map[string]boxRec{}
	}
	x.boxInfo[bc.S] = boxRec{from, v}
	return bc
}

// boxRec remembers what a boxed term was made from, so that assertions on it fold statically.
type boxRec struct {
	typ types.Type
	val Term
}

func (x *Exec) unbox(v Term, to types.Type) Term {
	s := x.sortOf(to)
	return x.ctx.App("unbox_"+sortKey(s), s, v)
}

func isInterface(t types.Type) bool {
	_, ok := t.Underlying().(*types.Interface)
	if _, tp := t.(*types.TypeParam); tp {
		return false
	}
	return ok
}

// convert adapts a value of type from to a location of type to (boxing into interfaces).
func (x *Exec) convert(st *State, v Term, from, to types.Type) Term {
	if from == nil || to == nil {
		return v
	}
	from, to = x.subst(types.Unalias(from)), x.subst(types.Unalias(to))
	if isInterface(to) && !isInterface(from) {
		b := x.box(st, v, from)
		x.dispatchFacts(st, b, v, from, to)
		return b
	}
	return v
}

// dispatchFacts links the methods of a repository-declared interface, called on a value boxed from
// an external concrete type, to that type's own (pure, uninterpreted) methods:
// I.M(box(v)) == T.M(v) for parameterless single-result methods.
func (x *Exec) dispatchFacts(st *State, boxed, v Term, from, to types.Type) {
	if n, ok := types.Unalias(to).(*types.Named); ok && !isRepoObj(n.Obj()) {
		return // interfaces of other packages: their methods are not linked
	}
	it, ok := to.Underlying().(*types.Interface)
	if !ok {
		return
	}
	for i := 0; i < it.NumMethods(); i++ {
		im := it.Method(i)
		sig := im.Type().(*types.Signature)
		if sig.Params().Len() != 0 || sig.Results().Len() != 1 {
			continue
		}
		obj, _, _ := types.LookupFieldOrMethod(from, true, nil, im.Name())
		cm, ok := obj.(*types.Func)
		if !ok || isRepoObj(cm) {
			continue
		}
		rs := x.sortOf(sig.Results().At(0).Type())
		st.assume(eq(x.ctx.App(methodSym(im, to), rs, boxed), x.ctx.App(methodSym(cm, from), rs, v)))
	}
}

// ---- function values ----

func (x *Exec) fnConst(name string) Term {
	if t, ok := x.fnConsts[name]; ok {
		return t
	}
	t := intLit(int64(1000000 + len(x.fnConsts)))
	x.fnConsts[name] = t
	return t
}
