package symex

import (
	"fmt"
	"go/ast"
	"go/constant"
	"go/types"
	"strings"
)

type effect int

const (
	effUnknown   effect = iota
	effPure             // results are functions of the arguments; no state change
	effAlloc            // returns an opaque fresh or pre-existing object; no change to our state
	effFSRead           // reads the file system (ghost fs); results not functions of the arguments alone
	effFSWrite          // mutates the file system
	effHavocArgs        // may write through its pointer arguments (decoders)
)

// purePackages: every function and method of these packages is treated as a pure
// uninterpreted function of its arguments (assumed contracts, DESIGN.md 3.6).
var purePackages = []string{
	"strings", "unicode", "unicode/utf8", "path/filepath", "path", "go/types", "go/token", "go/ast",
	"strconv", "math", "slices", "maps", "iter", "cmp", "errors", "context", "github.com/huandu/xstrings",
	"github.com/Masterminds/semver/v3", "github.com/go-errors/errors", "github.com/xeipuuv/gojsonschema", "golang.org/x/mod/modfile", "golang.org/x/mod/module",
}

var fsMutators = map[string]bool{
	"github.com/chigopher/pathlib.(*Path).WriteFile": true, "github.com/chigopher/pathlib.(*Path).MkdirAll": true,
	"github.com/chigopher/pathlib.(*Path).Mkdir": true, "github.com/chigopher/pathlib.(*Path).OpenFile": true,
	"github.com/chigopher/pathlib.(*Path).Remove": true, "github.com/chigopher/pathlib.(*Path).RemoveAll": true,
	"github.com/chigopher/pathlib.(*Path).Rename": true, "github.com/chigopher/pathlib.(*Path).Create": true,
	"github.com/chigopher/pathlib.(*Path).WriteFileMode": true, "github.com/chigopher/pathlib.(*Path).Chmod": true,
	"github.com/chigopher/pathlib.(*Path).Symlink": true, "github.com/chigopher/pathlib.(*Path).Copy": true,
	"os.WriteFile": true, "os.Create": true, "os.OpenFile": true, "os.Remove": true, "os.RemoveAll": true, "os.Rename": true,
	"os.Mkdir": true, "os.MkdirAll": true, "os.Truncate": true, "os.Chmod": true, "os.Symlink": true, "os.Link": true,
	"os.MkdirTemp": true, "os.CreateTemp": true, "io/ioutil.WriteFile": true, "os.(*File).Write": true, "os.(*File).WriteString": true,
	"os.(*File).Truncate": true, "gopkg.in/yaml.v3.(*Encoder).Encode": true,
	// go-git: everything that changes refs, objects, the index, the work tree or the configuration
	"github.com/go-git/go-git/v5.(*Repository).CreateTag": true, "github.com/go-git/go-git/v5.(*Repository).DeleteTag": true,
	"github.com/go-git/go-git/v5.(*Repository).CreateBranch": true, "github.com/go-git/go-git/v5.(*Repository).DeleteBranch": true,
	"github.com/go-git/go-git/v5.(*Repository).CreateRemote": true, "github.com/go-git/go-git/v5.(*Repository).CreateRemoteAnonymous": true,
	"github.com/go-git/go-git/v5.(*Repository).DeleteRemote": true, "github.com/go-git/go-git/v5.(*Repository).Push": true,
	"github.com/go-git/go-git/v5.(*Repository).PushContext": true, "github.com/go-git/go-git/v5.(*Repository).Fetch": true,
	"github.com/go-git/go-git/v5.(*Repository).FetchContext": true, "github.com/go-git/go-git/v5.(*Repository).SetConfig": true,
	"github.com/go-git/go-git/v5.(*Repository).DeleteObject": true, "github.com/go-git/go-git/v5.(*Repository).Prune": true,
	"github.com/go-git/go-git/v5.(*Repository).RepackObjects": true, "github.com/go-git/go-git/v5.(*Repository).Merge": true,
	"github.com/go-git/go-git/v5.(*Worktree).Add": true, "github.com/go-git/go-git/v5.(*Worktree).AddWithOptions": true,
	"github.com/go-git/go-git/v5.(*Worktree).AddGlob": true, "github.com/go-git/go-git/v5.(*Worktree).Commit": true,
	"github.com/go-git/go-git/v5.(*Worktree).Checkout": true, "github.com/go-git/go-git/v5.(*Worktree).Reset": true,
	"github.com/go-git/go-git/v5.(*Worktree).ResetSparsely": true, "github.com/go-git/go-git/v5.(*Worktree).Pull": true,
	"github.com/go-git/go-git/v5.(*Worktree).PullContext": true, "github.com/go-git/go-git/v5.(*Worktree).Remove": true,
	"github.com/go-git/go-git/v5.(*Worktree).RemoveGlob": true, "github.com/go-git/go-git/v5.(*Worktree).Move": true,
	"github.com/go-git/go-git/v5.(*Worktree).Clean": true, "github.com/go-git/go-git/v5.(*Worktree).Restore": true,
	"github.com/go-git/go-git/v5.PlainInit": true, "github.com/go-git/go-git/v5.PlainClone": true, "github.com/go-git/go-git/v5.Init": true,
	"github.com/go-git/go-git/v5.Clone": true, "github.com/go-git/go-git/v5.PlainCloneContext": true, "github.com/go-git/go-git/v5.CloneContext": true,
	"github.com/go-git/go-git/v5/plumbing/storer.(ReferenceStorer).SetReference": true, "github.com/go-git/go-git/v5/plumbing/storer.(ReferenceStorer).RemoveReference": true,
	"github.com/go-git/go-git/v5/plumbing/storer.(ReferenceStorer).CheckAndSetReference": true,
	"os/exec.(*Cmd).Run": true, "os/exec.(*Cmd).Start": true, "os/exec.(*Cmd).Output": true, "os/exec.(*Cmd).CombinedOutput": true,
}

// pureMethods: read-only accessors of otherwise opaque libraries, treated as functions of their arguments
// (of the repository state, which no call in the verified functions changes before they are used).
var pureMethods = map[string]bool{
	"github.com/go-git/go-git/v5.(*Repository).TagObject": true, "github.com/go-git/go-git/v5.(Status).IsClean": true,
	"github.com/go-git/go-git/v5.(Status).String":            true,
	"github.com/go-git/go-git/v5/plumbing.(*Reference).Hash": true, "github.com/go-git/go-git/v5/plumbing.(*Reference).Name": true,
	"github.com/go-git/go-git/v5/plumbing.(ReferenceName).Short": true, "github.com/go-git/go-git/v5/plumbing.(ReferenceName).String": true,
	"github.com/go-git/go-git/v5/plumbing.(Hash).String": true, "github.com/go-git/go-git/v5/plumbing.(Hash).IsZero": true,
}

var fsReaders = map[string]bool{
	"github.com/chigopher/pathlib.(*Path).Exists": true, "github.com/chigopher/pathlib.(*Path).ReadFile": true,
	"github.com/chigopher/pathlib.(*Path).IsDir": true, "github.com/chigopher/pathlib.(*Path).IsFile": true,
	"github.com/chigopher/pathlib.(*Path).ResolveAll": true, "github.com/chigopher/pathlib.(*Path).Stat": true,
	"github.com/chigopher/pathlib.(*Path).Open": true,
	"os.ReadFile": true, "os.Stat": true, "os.Getwd": true, "os.Open": true, "os.Lstat": true,
}

func extName(fn *types.Func) string {
	sig := fn.Type().(*types.Signature)
	if r := sig.Recv(); r != nil {
		t := r.Type()
		star := ""
		if p, ok := t.(*types.Pointer); ok {
			t = p.Elem()
			star = "*"
		}
		if n, ok := types.Unalias(t).(*types.Named); ok && n.Obj().Pkg() != nil {
			return fmt.Sprintf("%s.(%s%s).%s", n.Obj().Pkg().Path(), star, n.Obj().Name(), fn.Name())
		}
		if n, ok := types.Unalias(t).(*types.Named); ok {
			return fmt.Sprintf("(%s%s).%s", star, n.Obj().Name(), fn.Name())
		}
		return "(?)." + fn.Name()
	}
	return pkgPathOf(fn) + "." + fn.Name()
}

func (x *Exec) externalEffect(fn *types.Func) effect {
	name := extName(fn)
	if fsMutators[name] {
		return effFSWrite
	}
	if fsReaders[name] {
		return effFSRead
	}
	if pureMethods[name] {
		return effPure
	}
	pp := pkgPathOf(fn)
	if pp == "" { // universe (error.Error)
		return effPure
	}
	switch name {
	case "fmt.Sprintf", "fmt.Errorf", "fmt.Sprint", "fmt.Sprintln", "regexp.MatchString", "regexp.QuoteMeta", "regexp.MustCompile", "regexp.Compile",
		"os.Getenv", "os.ExpandEnv", "os.LookupEnv":
		return effPure
	case "fmt.Println", "fmt.Printf", "fmt.Print", "fmt.Fprintf", "fmt.Fprintln", "fmt.Fprint":
		return effPure // output only; not part of the verified state
	case "golang.org/x/tools/go/packages.Load", "github.com/brunoga/deep.Copy", "github.com/brunoga/deep.MustCopy":
		return effAlloc
	}
	for _, p := range purePackages {
		if pp == p {
			return effPure
		}
	}
	if pp == "github.com/chigopher/pathlib" {
		return effPure // remaining pathlib methods are path arithmetic
	}
	if strings.HasPrefix(pp, "github.com/knadh/koanf") || pp == "github.com/spf13/pflag" || pp == "github.com/spf13/cobra" ||
		pp == "text/template" || pp == "bytes" || pp == "bufio" || pp == "io" ||
		pp == "gopkg.in/yaml.v3" || pp == "go/format" || pp == "golang.org/x/tools/imports" || pp == "net/http" ||
		strings.HasPrefix(pp, "github.com/jedib0t/go-pretty") || pp == "golang.org/x/term" || pp == "sort" || pp == "sync" ||
		strings.HasPrefix(pp, "github.com/go-git/go-git") || pp == "github.com/spf13/viper" || pp == "os" || pp == "github.com/go-viper/mapstructure/v2" ||
		strings.HasPrefix(pp, "github.com/stretchr/testify") || pp == "math/rand/v2" || pp == "time" || pp == "testing" || pp == "runtime/debug" || pp == "runtime" {
		return effAlloc // opaque objects: results havocked, our heap untouched (assumption listed)
	}
	return effUnknown
}

// callExternal models a call to a function outside the repository.
func (x *Exec) callExternal(call *ast.CallExpr, fn *types.Func, recv *Term, args []Term, st *State) []Term {
	name := extName(fn)
	switch name {
	case "os.Exit":
		x.endExit(st, args[0], "os.Exit", call.Pos())
		return nil
	}
	if recv != nil {
		if why, ok := x.maybeNil[recv.S]; ok {
			x.safety(st, "nil-deref", not(eq(*recv, intLit(0))), "method call on a value that "+why+" may return as nil: "+x.exprString(call.Fun), call.Pos())
		}
	}
	switch name {
	case "gopkg.in/yaml.v3.(*Decoder).Decode", "github.com/knadh/koanf/v2.(*Koanf).Unmarshal", "github.com/knadh/koanf/v2.(*Koanf).UnmarshalWithConf", "gopkg.in/yaml.v3.Unmarshal":
		// decoders write through whatever their arguments reach: site clauses see the state before that
		x.siteObligations(call, fn, recv, args, st)
		x.havocAll(st)
		x.sitesDone = true
		defer func() { x.sitesDone = false }()
	}
	if h, ok := specialExternals[name]; ok {
		if name != "github.com/brunoga/deep.Copy" { // (that handler may fall back to the generic model, which checks sites itself)
			x.siteObligations(call, fn, recv, args, st)
		}
		return h(x, call, fn, recv, args, st)
	}
	if lit := isForEachLit(call); lit != nil && recv != nil {
		x.siteObligations(call, fn, recv, args, st)
		r := x.execForEach(call, lit, *recv, st)
		x.noteLastErr(st, fn, r)
		return r
	}
	return x.applyExternal(call, fn, x.externalEffect(fn), recv, args, st)
}

// mayReturnNil: externals whose result is legitimately nil for some inputs (DESIGN.md 4.1 nil-deref).
var mayReturnNil = map[string]bool{
	"go/types.(*Scope).Lookup": true, "go/types.(*TypeName).Pkg": true, "go/types.(*Named).TypeArgs": true,
	"go/types.(*Var).Pkg": true, "go/types.(*Func).Pkg": true,
}

type extHandler func(x *Exec, call *ast.CallExpr, fn *types.Func, recv *Term, args []Term, st *State) []Term

var specialExternals = map[string]extHandler{}

func init() {
	specialExternals["regexp.MatchString"] = func(x *Exec, call *ast.CallExpr, fn *types.Func, recv *Term, args []Term, st *State) []Term {
		m := x.ctx.App(pureName(fn)+"_r0", SBool, args...)
		e := x.ctx.App(pureName(fn)+"_r1", SInt, args[0])
		// a pattern that does not compile matches nothing
		st.assume(implies(not(eq(e, intLit(0))), not(m)))
		return []Term{m, e}
	}
	nonNilErr := func(x *Exec, call *ast.CallExpr, fn *types.Func, recv *Term, args []Term, st *State) []Term {
		v := x.ctx.App(pureName(fn), SInt, args...)
		v = x.name(st, "err", v)
		st.assume(not(eq(v, intLit(0))))
		return []Term{v}
	}
	specialExternals["fmt.Sprintf"] = func(x *Exec, call *ast.CallExpr, fn *types.Func, recv *Term, args []Term, st *State) []Term {
		v := x.ctx.App(pureName(fn), SStr, args...)
		v = x.name(st, "sprintf", v)
		// a constant format made of literal text and %s verbs applied to strings is concatenation
		if tv, ok := x.info().Types[call.Args[0]]; ok && tv.Value != nil && !call.Ellipsis.IsValid() {
			f := constant.StringVal(tv.Value)
			parts := strings.Split(f, "%s")
			plain := !strings.Contains(strings.Join(parts, ""), "%")
			if plain && len(parts)-1 == len(call.Args)-1 && len(x.lastVarargs) == len(call.Args)-1 {
				allStr := true
				for _, ra := range x.lastVarargs {
					if ra.typ == nil {
						allStr = false
						break
					}
					if b, ok := ra.typ.Underlying().(*types.Basic); !ok || b.Info()&types.IsString == 0 {
						allStr = false
					}
				}
				if allStr {
					cat := x.ctx.StrLit(parts[0])
					for i, ra := range x.lastVarargs {
						cat = mk(SStr, "sconcat", cat, ra.t)
						if parts[i+1] != "" {
							cat = mk(SStr, "sconcat", cat, x.ctx.StrLit(parts[i+1]))
						}
					}
					st.assume(eq(v, cat))
				}
			}
		}
		// a format with an integer verb prints at least one character
		if tv, ok := x.info().Types[call.Args[0]]; ok && tv.Value != nil {
			if f := constant.StringVal(tv.Value); strings.Contains(f, "%d") || strings.Contains(f, "%v") && len(f) > 2 {
				st.assume(mk(SBool, ">", mk(SInt, "slen", v), intLit(0)))
			}
		}
		return []Term{v}
	}
	specialExternals["fmt.Errorf"] = nonNilErr
	specialExternals["errors.New"] = nonNilErr
	specialExternals["github.com/go-errors/errors.New"] = nonNilErr
	specialExternals["github.com/go-errors/errors.Errorf"] = nonNilErr
	// text/template: Parse remembers the template text, Execute renders it into the writer's buffer,
	// (*bytes.Buffer).String reads the buffer. render(text, data) is an uninterpreted function:
	// rendering is assumed deterministic (false only for randInt, listed as an assumption).
	specialExternals["text/template.(*Template).Parse"] = func(x *Exec, call *ast.CallExpr, fn *types.Func, recv *Term, args []Term, st *State) []Term {
		n := x.ghostCounter(st, "extcalls")
		t := x.ctx.App("tmpl_parsed", SInt, n, args[0])
		t = x.name(st, "tmpl", t)
		e := x.ctx.App("tmpl_parse_err", SInt, args[0])
		st.assume(implies(eq(e, intLit(0)), and(mk(SBool, ">", t, intLit(0)), eq(x.ctx.App("tmpl_text", SStr, t), args[0]))))
		x.noteLastErr(st, fn, []Term{t, e})
		return []Term{t, e}
	}
	specialExternals["text/template.(*Template).Execute"] = func(x *Exec, call *ast.CallExpr, fn *types.Func, recv *Term, args []Term, st *State) []Term {
		text := x.ctx.App("tmpl_text", SStr, *recv)
		e := x.ctx.App("tmpl_exec_err", SInt, text, args[1])
		out := x.ctx.App("spec_render", SStr, text, args[1])
		// the writer is an io.Writer holding a *bytes.Buffer: its content becomes the rendering
		buf := x.ctx.App("unbox_Int", SInt, args[0])
		h := x.heapGet(st, "G_bufContent", arraySort(SInt, SStr))
		x.heapSet(st, "G_bufContent", store(h, buf, ite(eq(e, intLit(0)), out, x.ctx.Fresh("partial", SStr))))
		x.noteLastErr(st, fn, []Term{e})
		return []Term{e}
	}
	// sort.Strings(x), sort.Sort(sort.StringSlice(x)), sort.Sort(sort.Reverse(sort.StringSlice(x))) on a local
	// slice x: afterwards x holds a permutation of its elements in ascending / descending order of the
	// string comparison (assumed contract of package sort; other uses of sort.Sort are opaque).
	sortStrings := func(x *Exec, call *ast.CallExpr, target ast.Expr, desc bool, st *State) bool {
		if _, ok := x.subst(types.Unalias(x.typeOf(target))).Underlying().(*types.Slice); !ok {
			return false
		}
		lv := x.lvalue(target, st)
		old := lv.load(st)
		if old.Sort != x.sliceSort(SStr) {
			return false
		}
		ne := x.ctx.Fresh("sorted", arraySort(SInt, SStr))
		nv := x.mkSlice(SStr, ne, x.sliceLen(old), x.sliceNonNil(old), x.sliceArr(old))
		ln := x.sliceLen(old).S
		oe := x.sliceElemsOf(old).S
		a, b := "(select "+ne.S+" i)", "(select "+ne.S+" j)"
		ord := "(not (sless " + b + " " + a + "))" // ascending: no later element is smaller
		if desc {
			ord = "(not (sless " + a + " " + b + "))"
		}
		st.define(Term{fmt.Sprintf("(forall ((i Int) (j Int)) (! (=> (and (<= 0 i) (< i j) (< j %s)) %s) :pattern ((select %s i) (select %s j))))", ln, ord, ne.S, ne.S), SBool})
		// permutation, as far as contracts need it: every new element is an old one and vice versa
		p1 := x.ctx.Fresh("perm", arraySort(SInt, SInt))
		p2 := x.ctx.Fresh("perm", arraySort(SInt, SInt))
		st.define(Term{fmt.Sprintf("(forall ((i Int)) (! (=> (and (<= 0 i) (< i %s)) (and (<= 0 (select %s i)) (< (select %s i) %s) (= (select %s i) (select %s (select %s i))))) :pattern ((select %s i))))", ln, p1.S, p1.S, ln, ne.S, oe, p1.S, ne.S), SBool})
		st.define(Term{fmt.Sprintf("(forall ((i Int)) (! (=> (and (<= 0 i) (< i %s)) (and (<= 0 (select %s i)) (< (select %s i) %s) (= (select %s i) (select %s (select %s i))))) :pattern ((select %s i))))", ln, p2.S, p2.S, ln, oe, ne.S, p2.S, oe), SBool})
		lv.store(st, nv)
		return true
	}
	specialExternals["sort.Strings"] = func(x *Exec, call *ast.CallExpr, fn *types.Func, recv *Term, args []Term, st *State) []Term {
		if !sortStrings(x, call, call.Args[0], false, st) {
			return x.applyExternal(call, fn, effAlloc, recv, args, st)
		}
		return nil
	}
	specialExternals["sort.Sort"] = func(x *Exec, call *ast.CallExpr, fn *types.Func, recv *Term, args []Term, st *State) []Term {
		isConv := func(e ast.Expr, name string) (ast.Expr, bool) {
			c, ok := ast.Unparen(e).(*ast.CallExpr)
			if !ok || len(c.Args) != 1 {
				return nil, false
			}
			se, ok := ast.Unparen(c.Fun).(*ast.SelectorExpr)
			if !ok || se.Sel.Name != name {
				return nil, false
			}
			if id, ok := se.X.(*ast.Ident); !ok || id.Name != "sort" {
				return nil, false
			}
			return c.Args[0], true
		}
		arg := call.Args[0]
		desc := false
		if inner, ok := isConv(arg, "Reverse"); ok {
			arg, desc = inner, true
		}
		if target, ok := isConv(arg, "StringSlice"); ok && sortStrings(x, call, target, desc, st) {
			return nil
		}
		return x.applyExternal(call, fn, effAlloc, recv, args, st)
	}
	// sort.Slice(x, less) on a local slice x, in a function whose contract declares the key with
	// "sortkey e($elem)": (1) the comparator literal is proved to be "key(x[i]) < key(x[j])" for all indices in
	// range (obligation sort-less), (2) afterwards x holds a permutation of its elements in ascending key
	// order (assumed contract of package sort). Without a sortkey clause the call is opaque.
	specialExternals["sort.Slice"] = func(x *Exec, call *ast.CallExpr, fn *types.Func, recv *Term, args []Term, st *State) []Term {
		lit, _ := ast.Unparen(call.Args[1]).(*ast.FuncLit)
		if x.contract == nil || len(x.contract.SortKeys) == 0 || lit == nil || !x.top().top {
			return x.applyExternal(call, fn, effAlloc, recv, args, st)
		}
		keyCl := x.contract.SortKeys[0]
		sl, ok := x.subst(types.Unalias(x.typeOf(call.Args[0]))).Underlying().(*types.Slice)
		if !ok {
			return x.applyExternal(call, fn, effAlloc, recv, args, st)
		}
		lv := x.lvalue(call.Args[0], st)
		old := lv.load(st)
		elemSort := x.elemOfSliceSort(old.Sort)
		keyOf := func(s *State, el Term) Term {
			env := x.funcEnv(s)
			env.locals = true
			env.binds["$elem"] = bound{el, sl.Elem()}
			k, _ := env.eval(keyCl.Expr)
			return k
		}
		less := func(a, b Term) Term {
			if a.Sort == SStr {
				return mk(SBool, "sless", a, b)
			}
			return mk(SBool, "<", a, b)
		}
		// (1) the comparator agrees with the declared key
		ic, jc := x.ctx.Fresh("si", SInt), x.ctx.Fresh("sj", SInt)
		probe := st.clone()
		ln := x.sliceLen(old)
		probe.assume(and(mk(SBool, "<=", intLit(0), ic), mk(SBool, "<", ic, ln), mk(SBool, "<=", intLit(0), jc), mk(SBool, "<", jc, ln)))
		sig := x.typeOf(lit).Underlying().(*types.Signature)
		fi := x.w.LitInfo[lit]
		if fi == nil {
			fi = &FuncInfo{Lit: lit, Pkg: x.top().pkg, Name: x.top().fi.Name + "$lit", Sig: sig, Encl: x.top().fi}
		}
		x.tryPath(func() {
			res := x.inline(nil, fi, nil, nil, []Term{ic, jc}, probe)
			want := less(keyOf(probe, sel(x.sliceElemsOf(old), ic)), keyOf(probe, sel(x.sliceElemsOf(old), jc)))
			o := x.emit(probe, "sort-less", "", eq(res[0], want), keyCl.Props, "the comparator handed to sort.Slice orders by the declared key: "+keyCl.Text, call.Pos())
			o.ClauseText = keyCl.Text
		})
		// (2) the sorted slice
		ne := x.ctx.Fresh("sorted", arraySort(SInt, elemSort))
		nv := x.mkSlice(elemSort, ne, ln, x.sliceNonNil(old), x.sliceArr(old))
		qa, qb := Term{"qa", SInt}, Term{"qb", SInt}
		ka, kb := keyOf(st, sel(ne, qa)), keyOf(st, sel(ne, qb))
		st.define(Term{fmt.Sprintf("(forall ((qa Int) (qb Int)) (! (=> (and (<= 0 qa) (< qa qb) (< qb %s)) (not %s)) :pattern ((select %s qa) (select %s qb))))", ln.S, less(kb, ka).S, ne.S, ne.S), SBool})
		oe := x.sliceElemsOf(old).S
		p1 := x.ctx.Fresh("perm", arraySort(SInt, SInt))
		p2 := x.ctx.Fresh("perm", arraySort(SInt, SInt))
		st.define(Term{fmt.Sprintf("(forall ((i Int)) (! (=> (and (<= 0 i) (< i %s)) (and (<= 0 (select %s i)) (< (select %s i) %s) (= (select %s i) (select %s (select %s i))))) :pattern ((select %s i))))", ln.S, p1.S, p1.S, ln.S, ne.S, oe, p1.S, ne.S), SBool})
		st.define(Term{fmt.Sprintf("(forall ((i Int)) (! (=> (and (<= 0 i) (< i %s)) (and (<= 0 (select %s i)) (< (select %s i) %s) (= (select %s i) (select %s (select %s i))))) :pattern ((select %s i))))", ln.S, p2.S, p2.S, ln.S, oe, ne.S, p2.S, oe), SBool})
		lv.store(st, nv)
		return nil
	}
	// testify: Arguments is a []interface{}; Get(i) is element i (it panics in the library when i is out of
	// range: not an obligation of the generated code), Error(i) is element i as an error (nil stays nil)
	argGet := func(x *Exec, call *ast.CallExpr, fn *types.Func, recv *Term, args []Term, st *State) []Term {
		st.assume(and(mk(SBool, "<=", intLit(0), args[0]), mk(SBool, "<", args[0], x.sliceLen(*recv))))
		return []Term{sel(x.sliceElemsOf(*recv), args[0])}
	}
	specialExternals["github.com/stretchr/testify/mock.(Arguments).Get"] = argGet
	specialExternals["github.com/stretchr/testify/mock.(Arguments).Error"] = argGet
	specialExternals["bytes.(*Buffer).String"] = func(x *Exec, call *ast.CallExpr, fn *types.Func, recv *Term, args []Term, st *State) []Term {
		h := x.heapGet(st, "G_bufContent", arraySort(SInt, SStr))
		return []Term{sel(h, *recv)}
	}
	// deep.Copy(p) for a pointer to a struct: a fresh object whose pointer parameters are fresh copies
	// of the source's (non-nil exactly when the source's are, with equal pointees); slices and maps are
	// copied (same nil-ness). Assumed behaviour of github.com/brunoga/deep, listed in the evidence.
	specialExternals["github.com/brunoga/deep.Copy"] = func(x *Exec, call *ast.CallExpr, fn *types.Func, recv *Term, args []Term, st *State) []Term {
		t := x.typeOf(call.Args[0])
		pt, ok := t.Underlying().(*types.Pointer)
		if !ok {
			return x.applyExternal(call, fn, effAlloc, recv, args, st)
		}
		stt, ok := pt.Elem().Underlying().(*types.Struct)
		if !ok {
			return x.applyExternal(call, fn, effAlloc, recv, args, st)
		}
		_ = stt
		src := x.eval(call.Args[0], st)
		errT := intLit(0) // assumed: deep.Copy of a configuration struct (maps, slices, scalars) does not fail
		si := x.structOf(pt.Elem())
		pre := st.clone()
		r := x.allocRef(st, "deepcopy")
		for i := range si.Fields {
			f := &si.Fields[i]
			hn := fieldHeapName(si, f)
			sv := sel(x.heapGet(pre, hn, arraySort(SInt, f.Sort)), src)
			var nv Term
			switch u := f.Type.Underlying().(type) {
			case *types.Pointer:
				c := x.allocRef(st, "deepcopy_"+f.Name)
				x.storePtr(st, c, u.Elem(), x.loadPtr(pre, sv, u.Elem()))
				nv = ite(eq(sv, intLit(0)), intLit(0), c)
			case *types.Map:
				c := x.allocRef(st, "deepcopy_"+f.Name)
				nv = ite(eq(sv, intLit(0)), intLit(0), c)
			default:
				nv = sv
			}
			h := x.heapGet(st, hn, arraySort(SInt, f.Sort))
			x.heapSet(st, hn, store(h, r, nv))
		}
		res := ite(eq(src, intLit(0)), intLit(0), r)
		x.noteLastErr(st, fn, []Term{res, errT})
		return []Term{res, errT}
	}
	// ast.Walk(v, node) calls v.Visit repeatedly: whatever Visit's contract assigns may change
	specialExternals["go/ast.Walk"] = func(x *Exec, call *ast.CallExpr, fn *types.Func, recv *Term, args []Term, st *State) []Term {
		vt := x.typeOf(call.Args[0])
		obj, _, _ := types.LookupFieldOrMethod(vt, true, x.top().pkg.Types, "Visit")
		m, _ := obj.(*types.Func)
		var c *Contract
		if m != nil {
			c = x.w.ByFunc[m.Origin()]
		}
		if c == nil || !c.HasAssign {
			st.approx = append(st.approx, "ast.Walk with a visitor without contract")
			x.havocAll(st)
			return nil
		}
		recvV := x.eval(call.Args[0], st)
		for _, a := range c.Assigns {
			env := x.calleeEnv(c, st, nil, &recvV, []Term{intLit(0)}, nil)
			x.havocLocation(env, st, a)
		}
		return nil
	}
	// sort.Slice / sort.Strings / slices.Sort on a local: result is a permutation we do not model; handled by contracts of callers
}

// applyExternal applies the generic model of an external function according to its effect class.
func (x *Exec) applyExternal(call *ast.CallExpr, fn *types.Func, eff effect, recv *Term, args []Term, st *State) []Term {
	sig := fn.Type().(*types.Signature)
	name := extName(fn)
	all := args
	if recv != nil {
		all = append([]Term{*recv}, args...)
	}
	x.siteObligations(call, fn, recv, args, st)
	var out []Term
	nres := sig.Results().Len()
	switch eff {
	case effPure:
		for i := 0; i < nres; i++ {
			rt := sig.Results().At(i).Type()
			sym := methodSym(fn, x.recvStatic)
			if nres > 1 {
				sym += fmt.Sprintf("_r%d", i)
			}
			v := x.ctx.App(sym, x.sortOf(rt), all...)
			v = x.name(st, "ext", v)
			x.extResultFacts(st, fn, i, v, rt)
			if mayReturnNil[name] {
				if x.maybeNil == nil {
					x.maybeNil = map[string]string{}
				}
				x.maybeNil[v.S] = name
			}
			out = append(out, v)
		}
		return out
	case effFSWrite:
		if x.contract != nil && x.contract.Safety["fs-frame"] && !x.siteCovered(fn) {
			x.emit(st, "effects-fs", shortFn(name), tFalse, x.contract.Props, "file-system mutation "+name+" is not designated by any site clause of the contract", call.Pos())
		}
		x.recordEvent(st, "fs_"+fn.Name(), all)
		fallthrough
	case effFSRead, effAlloc, effHavocArgs:
		n := x.ghostCounter(st, "extcalls")
		for i := 0; i < nres; i++ {
			rt := sig.Results().At(i).Type()
			sym := fmt.Sprintf("%s@%d", methodSym(fn, x.recvStatic), i)
			v := x.ctx.App(sym, x.sortOf(rt), append([]Term{n}, all...)...)
			v = x.name(st, "ext", v)
			x.extResultFacts(st, fn, i, v, rt)
			out = append(out, v)
		}
		x.noteLastErr(st, fn, out)
		return out
	}
	// unknown: havoc everything reachable (coarse, sound)
	st.approx = append(st.approx, "unknown external "+name+" at "+x.posString(call.Pos()))
	x.havocAll(st)
	for i := 0; i < nres; i++ {
		rt := sig.Results().At(i).Type()
		v := x.ctx.Fresh("extres", x.sortOf(rt))
		x.extResultFacts(st, fn, i, v, rt)
		out = append(out, v)
	}
	return out
}

// noteLastErr remembers the error result of the latest call of an external (lastErr("Name")).
func (x *Exec) noteLastErr(st *State, fn *types.Func, out []Term) {
	sig := fn.Type().(*types.Signature)
	n := sig.Results().Len()
	if n == 0 || len(out) != n || sig.Results().At(n-1).Type().String() != "error" {
		return
	}
	if st.ghost == nil {
		st.ghost = map[string]Term{}
	}
	st.ghost["lasterr:"+fn.Name()] = out[n-1]
	st.ghost["lasterr:"+extName(fn)] = out[n-1]
}

// extResultFacts: type invariants of external results.
func (x *Exec) extResultFacts(st *State, fn *types.Func, i int, v Term, rt types.Type) {
	for _, f := range x.typeFacts(v, rt) {
		st.assume(f)
	}
	switch fn.Name() {
	case "Len", "NumMethods", "NumFields", "NumEmbeddeds", "NumExplicitMethods", "NumField":
		if v.Sort == SInt {
			st.assume(mk(SBool, ">=", v, intLit(0)))
		}
	}
	rt = x.subst(types.Unalias(rt))
	switch rt.Underlying().(type) {
	case *types.Pointer, *types.Map:
		st.assume(mk(SBool, "<", v, st.alloc))
	}
	// pathlib's path arithmetic never returns a nil *Path
	if pkgPathOf(fn) == "github.com/chigopher/pathlib" {
		if p, ok := rt.(*types.Pointer); ok {
			if n, ok := p.Elem().(*types.Named); ok && n.Obj().Name() == "Path" && i == 0 {
				st.assume(mk(SBool, ">", v, intLit(0)))
			}
		}
	}
}

// ---- site obligations (DESIGN.md 3.4 "site F: e") ----

func (x *Exec) siteCovered(fn *types.Func) bool {
	if x.contract == nil {
		return false
	}
	for _, s := range x.contract.Sites {
		site := s.Site
		if at := strings.Index(site, "@"); at >= 0 {
			site = site[:at]
		}
		if site == fn.Name() || site == extName(fn) {
			return true
		}
	}
	return false
}

func (x *Exec) siteObligations(call *ast.CallExpr, fn *types.Func, recv *Term, args []Term, st *State) {
	if x.sitesDone {
		return
	}
	if x.contract == nil || !x.top().top {
		// site clauses talk about calls made by the function under contract itself or by helpers inlined into it
	}
	if x.contract == nil {
		return
	}
	for _, s := range x.contract.Sites {
		site := s.Site
		if at := strings.Index(site, "@"); at >= 0 {
			// NAME@n : only the n-th call of NAME in source order inside the function under contract
			n := -1
			fmt.Sscanf(site[at+1:], "%d", &n)
			site = site[:at]
			if x.callOrdinal(call, site) != n {
				continue
			}
		}
		if site != fn.Name() && site != extName(fn) {
			continue
		}
		env := x.funcEnv(st)
		env.locals = true
		env.loop = x.curLoop // ($i, $outeri, ... of the loops the call site is in)
		sig := fn.Type().(*types.Signature)
		if recv != nil {
			env.binds["$recv"] = bound{*recv, sig.Recv().Type()}
		} else if fn.Pkg() != nil && fn.Pkg().Path() == "github.com/spf13/viper" {
			// package-level viper functions act on the package's global instance
			if tn, ok := fn.Pkg().Scope().Lookup("Viper").(*types.TypeName); ok {
				env.binds["$recv"] = bound{x.ctx.App("viper_global_instance", SInt), types.NewPointer(tn.Type())}
			}
		}
		for i, a := range args {
			if i < sig.Params().Len() {
				env.binds[fmt.Sprintf("$%d", i)] = bound{a, sig.Params().At(i).Type()}
			}
		}
		g := x.specBool(env, s)
		o := x.emit(st, "site", s.Site+labelSuffix(s.Label), g, s.Props, "at every call of "+s.Site+": "+s.Text, call.Pos())
		o.ClauseText = s.Text
		x.siteCount[s.Site]++
	}
}

// callOrdinal: position of call among the calls of a function named name in the body of the
// function under contract (source order); -1 if the call is not syntactically in that body.
func (x *Exec) callOrdinal(call *ast.CallExpr, name string) int {
	n, found := 0, -1
	ast.Inspect(x.fn.Body(), func(nd ast.Node) bool {
		c, ok := nd.(*ast.CallExpr)
		if !ok {
			return true
		}
		var id *ast.Ident
		switch f := ast.Unparen(c.Fun).(type) {
		case *ast.Ident:
			id = f
		case *ast.SelectorExpr:
			id = f.Sel
		}
		if id != nil && id.Name == name {
			if c == call {
				found = n
			}
			n++
		}
		return true
	})
	return found
}

func labelSuffix(l string) string {
	if l == "" {
		return ""
	}
	return "." + l
}
