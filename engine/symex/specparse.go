package symex

import (
	"fmt"
	"strconv"
	"strings"
	"unicode"
)

// SpecExpr is the AST of a contract expression (DESIGN.md 3.4).
type SpecExpr struct {
	Kind    string // ident int str bool nil unary binary call index field forall exists old ite slice
	Op      string
	Name    string
	Val     string
	Args    []*SpecExpr
	Binders []Binder
}

type Binder struct {
	Name string
	Type string
}

func (e *SpecExpr) String() string {
	switch e.Kind {
	case "ident":
		return e.Name
	case "type":
		return e.Val
	case "int", "bool":
		return e.Val
	case "str":
		return strconv.Quote(e.Val)
	case "nil":
		return "nil"
	case "unary":
		return e.Op + e.Args[0].String()
	case "binary":
		return "(" + e.Args[0].String() + " " + e.Op + " " + e.Args[1].String() + ")"
	case "call":
		var as []string
		for _, a := range e.Args[1:] {
			as = append(as, a.String())
		}
		return e.Args[0].String() + "(" + strings.Join(as, ", ") + ")"
	case "index":
		return e.Args[0].String() + "[" + e.Args[1].String() + "]"
	case "slice":
		return e.Args[0].String() + "[" + e.Args[1].String() + ":" + e.Args[2].String() + "]"
	case "field":
		return e.Args[0].String() + "." + e.Name
	case "forall", "exists":
		var bs []string
		for _, b := range e.Binders {
			bs = append(bs, b.Name+" "+b.Type)
		}
		return "(" + e.Kind + " " + strings.Join(bs, ", ") + " :: " + e.Args[0].String() + ")"
	case "old":
		return "old(" + e.Args[0].String() + ")"
	case "ite":
		return "(" + e.Args[0].String() + " ? " + e.Args[1].String() + " : " + e.Args[2].String() + ")"
	}
	return "?" + e.Kind
}

type tok struct {
	k string // id int str op eof
	s string
}

func lexSpec(src string) ([]tok, error) {
	var out []tok
	i := 0
	ops := []string{"<==>", "==>", "::", "&&", "||", "==", "!=", "<=", ">=", "<", ">", "+", "-", "*", "/", "%", "!", ".", ",", "(", ")", "[", "]", "?", ":", "&", "{", "}"}
	for i < len(src) {
		c := rune(src[i])
		switch {
		case c == ' ' || c == '\t' || c == '\n':
			i++
		case unicode.IsLetter(c) || c == '_' || c == '$':
			j := i + 1
			for j < len(src) && (unicode.IsLetter(rune(src[j])) || unicode.IsDigit(rune(src[j])) || src[j] == '_' || src[j] == '$') {
				j++
			}
			out = append(out, tok{"id", src[i:j]})
			i = j
		case unicode.IsDigit(c):
			j := i + 1
			for j < len(src) && (unicode.IsDigit(rune(src[j])) || src[j] == 'x' || (src[j] >= 'a' && src[j] <= 'f') || (src[j] >= 'A' && src[j] <= 'F')) {
				j++
			}
			out = append(out, tok{"int", src[i:j]})
			i = j
		case c == '"':
			j := i + 1
			for j < len(src) && src[j] != '"' {
				if src[j] == '\\' {
					j++
				}
				j++
			}
			if j >= len(src) {
				return nil, fmt.Errorf("unterminated string")
			}
			v, err := strconv.Unquote(src[i : j+1])
			if err != nil {
				return nil, err
			}
			out = append(out, tok{"str", v})
			i = j + 1
		case c == '`':
			j := strings.IndexByte(src[i+1:], '`')
			if j < 0 {
				return nil, fmt.Errorf("unterminated raw string")
			}
			out = append(out, tok{"str", src[i+1 : i+1+j]})
			i = i + j + 2
		case c == '\'':
			j := i + 1
			for j < len(src) && src[j] != '\'' {
				if src[j] == '\\' {
					j++
				}
				j++
			}
			r, _, _, err := strconv.UnquoteChar(src[i+1:j], '\'')
			if err != nil {
				return nil, err
			}
			out = append(out, tok{"int", strconv.Itoa(int(r))})
			i = j + 1
		default:
			matched := false
			for _, op := range ops {
				if strings.HasPrefix(src[i:], op) {
					out = append(out, tok{"op", op})
					i += len(op)
					matched = true
					break
				}
			}
			if !matched {
				return nil, fmt.Errorf("unexpected character %q in spec %q", c, src)
			}
		}
	}
	out = append(out, tok{"eof", ""})
	return out, nil
}

type specParser struct {
	toks []tok
	p    int
	src  string
}

func ParseSpec(src string) (e *SpecExpr, err error) {
	toks, err := lexSpec(src)
	if err != nil {
		return nil, err
	}
	sp := &specParser{toks: toks, src: src}
	defer func() {
		if r := recover(); r != nil {
			if s, ok := r.(specErr); ok {
				err = fmt.Errorf("spec parse error: %s in %q", string(s), src)
				return
			}
			panic(r)
		}
	}()
	e = sp.expr()
	if sp.peek().k != "eof" {
		sp.fail("trailing tokens at " + sp.peek().s)
	}
	return e, nil
}

type specErr string

func (sp *specParser) fail(msg string) { panic(specErr(msg)) }
func (sp *specParser) peek() tok       { return sp.toks[sp.p] }
func (sp *specParser) next() tok       { t := sp.toks[sp.p]; sp.p++; return t }
func (sp *specParser) isOp(s string) bool {
	t := sp.peek()
	return t.k == "op" && t.s == s
}
func (sp *specParser) expectOp(s string) {
	if !sp.isOp(s) {
		sp.fail("expected " + s + " got " + sp.peek().s)
	}
	sp.p++
}

func (sp *specParser) expr() *SpecExpr {
	t := sp.peek()
	if t.k == "id" && (t.s == "forall" || t.s == "exists") {
		sp.p++
		var bs []Binder
		for {
			n := sp.next()
			if n.k != "id" {
				sp.fail("binder name expected")
			}
			// type text until , or ::
			var ty []string
			depth := 0
			for {
				q := sp.peek()
				if q.k == "eof" {
					sp.fail("unterminated binder")
				}
				if depth == 0 && q.k == "op" && (q.s == "," || q.s == "::") {
					break
				}
				if q.k == "op" && (q.s == "[" || q.s == "(") {
					depth++
				}
				if q.k == "op" && (q.s == "]" || q.s == ")") {
					depth--
				}
				ty = append(ty, q.s)
				sp.p++
			}
			bs = append(bs, Binder{n.s, strings.Join(ty, "")})
			if sp.isOp(",") {
				sp.p++
				continue
			}
			break
		}
		// binders without a type take the type of the next typed binder ("forall i, j int")
		for i := len(bs) - 1; i >= 0; i-- {
			if bs[i].Type == "" && i+1 < len(bs) {
				bs[i].Type = bs[i+1].Type
			}
		}
		sp.expectOp("::")
		body := sp.expr()
		return &SpecExpr{Kind: t.s, Binders: bs, Args: []*SpecExpr{body}}
	}
	return sp.iff()
}

func (sp *specParser) iff() *SpecExpr {
	l := sp.impl()
	for sp.isOp("<==>") {
		sp.p++
		r := sp.impl()
		l = &SpecExpr{Kind: "binary", Op: "<==>", Args: []*SpecExpr{l, r}}
	}
	return l
}

func (sp *specParser) impl() *SpecExpr {
	l := sp.tern()
	if sp.isOp("==>") {
		sp.p++
		var r *SpecExpr
		if t := sp.peek(); t.k == "id" && (t.s == "forall" || t.s == "exists") {
			r = sp.expr()
		} else {
			r = sp.impl()
		}
		return &SpecExpr{Kind: "binary", Op: "==>", Args: []*SpecExpr{l, r}}
	}
	return l
}

func (sp *specParser) tern() *SpecExpr {
	c := sp.orE()
	if sp.isOp("?") {
		sp.p++
		a := sp.tern()
		sp.expectOp(":")
		b := sp.tern()
		return &SpecExpr{Kind: "ite", Args: []*SpecExpr{c, a, b}}
	}
	return c
}

func (sp *specParser) orE() *SpecExpr {
	l := sp.andE()
	for sp.isOp("||") {
		sp.p++
		r := sp.andE()
		l = &SpecExpr{Kind: "binary", Op: "||", Args: []*SpecExpr{l, r}}
	}
	return l
}

func (sp *specParser) andE() *SpecExpr {
	l := sp.cmp()
	for sp.isOp("&&") {
		sp.p++
		var r *SpecExpr
		if t := sp.peek(); t.k == "id" && (t.s == "forall" || t.s == "exists") {
			r = sp.expr()
		} else {
			r = sp.cmp()
		}
		l = &SpecExpr{Kind: "binary", Op: "&&", Args: []*SpecExpr{l, r}}
	}
	return l
}

func (sp *specParser) cmp() *SpecExpr {
	l := sp.add()
	for {
		t := sp.peek()
		if t.k == "op" && (t.s == "==" || t.s == "!=" || t.s == "<" || t.s == "<=" || t.s == ">" || t.s == ">=") {
			sp.p++
			r := sp.add()
			l = &SpecExpr{Kind: "binary", Op: t.s, Args: []*SpecExpr{l, r}}
			continue
		}
		if t.k == "id" && t.s == "in" {
			sp.p++
			r := sp.add()
			l = &SpecExpr{Kind: "binary", Op: "in", Args: []*SpecExpr{l, r}}
			continue
		}
		return l
	}
}

func (sp *specParser) add() *SpecExpr {
	l := sp.mul()
	for sp.isOp("+") || sp.isOp("-") {
		op := sp.next().s
		r := sp.mul()
		l = &SpecExpr{Kind: "binary", Op: op, Args: []*SpecExpr{l, r}}
	}
	return l
}

func (sp *specParser) mul() *SpecExpr {
	l := sp.unary()
	for sp.isOp("*") || sp.isOp("/") || sp.isOp("%") {
		op := sp.next().s
		r := sp.unary()
		l = &SpecExpr{Kind: "binary", Op: op, Args: []*SpecExpr{l, r}}
	}
	return l
}

func (sp *specParser) unary() *SpecExpr {
	if sp.isOp("!") || sp.isOp("-") || sp.isOp("*") {
		op := sp.next().s
		a := sp.unary()
		return &SpecExpr{Kind: "unary", Op: op, Args: []*SpecExpr{a}}
	}
	return sp.postfix()
}

func (sp *specParser) postfix() *SpecExpr {
	e := sp.primary()
	for {
		switch {
		case sp.isOp("."):
			sp.p++
			n := sp.next()
			if n.k != "id" {
				sp.fail("field name expected")
			}
			e = &SpecExpr{Kind: "field", Name: n.s, Args: []*SpecExpr{e}}
		case sp.isOp("["):
			sp.p++
			if sp.isOp(":") {
				sp.p++
				hi := sp.expr()
				sp.expectOp("]")
				e = &SpecExpr{Kind: "slice", Args: []*SpecExpr{e, {Kind: "int", Val: "0"}, hi}}
				continue
			}
			idx := sp.expr()
			if sp.isOp(":") {
				sp.p++
				var hi *SpecExpr
				if sp.isOp("]") {
					hi = &SpecExpr{Kind: "call", Args: []*SpecExpr{{Kind: "ident", Name: "len"}, e}}
				} else {
					hi = sp.expr()
				}
				sp.expectOp("]")
				e = &SpecExpr{Kind: "slice", Args: []*SpecExpr{e, idx, hi}}
				continue
			}
			sp.expectOp("]")
			e = &SpecExpr{Kind: "index", Args: []*SpecExpr{e, idx}}
		case sp.isOp("("):
			sp.p++
			args := []*SpecExpr{e}
			if e.Kind == "ident" && (e.Name == "tagof" || e.Name == "unbox" || e.Name == "maps" || e.Name == "zero" || e.Name == "fields") {
				// first argument is a Go type
				var ty []string
				depth := 0
				for {
					q := sp.peek()
					if q.k == "eof" {
						sp.fail("unterminated type argument")
					}
					if depth == 0 && q.k == "op" && (q.s == "," || q.s == ")") {
						break
					}
					if q.k == "op" && (q.s == "[" || q.s == "(") {
						depth++
					}
					if q.k == "op" && (q.s == "]" || q.s == ")") {
						depth--
					}
					ty = append(ty, q.s)
					sp.p++
				}
				args = append(args, &SpecExpr{Kind: "type", Val: strings.Join(ty, "")})
				if sp.isOp(",") {
					sp.p++
				}
			}
			for !sp.isOp(")") {
				args = append(args, sp.expr())
				if sp.isOp(",") {
					sp.p++
				} else {
					break
				}
			}
			sp.expectOp(")")
			if e.Kind == "ident" && e.Name == "old" {
				if len(args) != 2 {
					sp.fail("old takes one argument")
				}
				e = &SpecExpr{Kind: "old", Args: args[1:]}
			} else {
				e = &SpecExpr{Kind: "call", Args: args}
			}
		default:
			return e
		}
	}
}

func (sp *specParser) primary() *SpecExpr {
	t := sp.next()
	switch t.k {
	case "int":
		return &SpecExpr{Kind: "int", Val: t.s}
	case "str":
		return &SpecExpr{Kind: "str", Val: t.s}
	case "id":
		switch t.s {
		case "true", "false":
			return &SpecExpr{Kind: "bool", Val: t.s}
		case "nil":
			return &SpecExpr{Kind: "nil"}
		}
		return &SpecExpr{Kind: "ident", Name: t.s}
	case "op":
		if t.s == "(" {
			e := sp.expr()
			sp.expectOp(")")
			return e
		}
	}
	sp.fail("unexpected token " + t.s)
	return nil
}
