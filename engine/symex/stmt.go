package symex

import (
	"fmt"
	"go/ast"
	"go/token"
	"go/types"
)

// flow is the outcome of executing statements from one state.
type flow struct {
	normal *State
	brk    []*State
	cont   []*State
}

func (x *Exec) execBlock(stmts []ast.Stmt, st *State) flow {
	fl := flow{normal: st}
	for _, s := range stmts {
		if fl.normal == nil {
			break
		}
		f := x.execStmt(s, fl.normal)
		fl.normal = f.normal
		fl.brk = append(fl.brk, f.brk...)
		fl.cont = append(fl.cont, f.cont...)
	}
	return fl
}

// tryPath runs f; a pathEnd panic ends the path (returns false).
func (x *Exec) tryPath(f func()) (ok bool) {
	defer func() {
		if r := recover(); r != nil {
			if _, isEnd := r.(pathEnd); isEnd {
				ok = false
				return
			}
			panic(r)
		}
	}()
	f()
	return true
}

func (x *Exec) execStmt(s ast.Stmt, st *State) (fl flow) {
	x.curPos = s.Pos()
	alive := x.tryPath(func() { fl = x.execStmt1(s, st) })
	if !alive {
		return flow{}
	}
	return fl
}

func (x *Exec) execStmt1(s ast.Stmt, st *State) flow {
	switch s := s.(type) {
	case *ast.EmptyStmt:
		return flow{normal: st}
	case *ast.BlockStmt:
		return x.execBlock(s.List, st)
	case *ast.ExprStmt:
		if call, ok := s.X.(*ast.CallExpr); ok {
			x.evalCall(call, st)
			return flow{normal: st}
		}
		x.eval(s.X, st)
		return flow{normal: st}
	case *ast.AssignStmt:
		x.execAssign(s, st)
		return flow{normal: st}
	case *ast.IncDecStmt:
		lv := x.lvalue(s.X, st)
		cur := lv.load(st)
		op := "+"
		if s.Tok == token.DEC {
			op = "-"
		}
		if f, ok := foldArith(op, cur, intLit(1)); ok && !(x.contract != nil && x.contract.Safety["wrap64"]) {
			lv.store(st, f)
		} else {
			lv.store(st, x.wrapArith(mk(SInt, op, cur, intLit(1)), x.typeOf(s.X)))
		}
		return flow{normal: st}
	case *ast.DeclStmt:
		gd, ok := s.Decl.(*ast.GenDecl)
		if !ok {
			panic(unsupported("declaration statement"))
		}
		for _, sp := range gd.Specs {
			vs, ok := sp.(*ast.ValueSpec)
			if !ok {
				continue // type or const declarations
			}
			if len(vs.Values) == 1 && len(vs.Names) > 1 {
				vals := x.evalMulti(vs.Values[0], st, len(vs.Names))
				for i, n := range vs.Names {
					if v, ok := x.info().Defs[n].(*types.Var); ok && n.Name != "_" {
						x.declVar(st, v, vals[i])
					}
				}
				continue
			}
			for i, n := range vs.Names {
				v, ok := x.info().Defs[n].(*types.Var)
				if !ok || n.Name == "_" {
					continue
				}
				if i < len(vs.Values) {
					x.declVar(st, v, x.evalTo(vs.Values[i], st, v.Type()))
				} else {
					x.declVar(st, v, x.zero(v.Type()))
				}
			}
		}
		return flow{normal: st}
	case *ast.IfStmt:
		return x.execIf(s, st)
	case *ast.ForStmt:
		return x.execFor(s, st)
	case *ast.RangeStmt:
		return x.execRange(s, st)
	case *ast.SwitchStmt:
		return x.execSwitch(s, st)
	case *ast.TypeSwitchStmt:
		return x.execTypeSwitch(s, st)
	case *ast.ReturnStmt:
		x.execReturn(s, st)
		return flow{}
	case *ast.BranchStmt:
		if s.Label != nil {
			panic(unsupported("labelled " + s.Tok.String()))
		}
		switch s.Tok {
		case token.BREAK:
			return flow{brk: []*State{st}}
		case token.CONTINUE:
			return flow{cont: []*State{st}}
		}
		panic(unsupported("branch " + s.Tok.String()))
	case *ast.LabeledStmt:
		return x.execStmt1(s.Stmt, st)
	case *ast.DeferStmt:
		fr := x.top()
		fr.deferred = append(fr.deferred, s.Call)
		return flow{normal: st}
	case *ast.GoStmt:
		panic(unsupported("go statement"))
	case *ast.SendStmt, *ast.SelectStmt:
		panic(unsupported("channel operation"))
	}
	panic(unsupported(fmt.Sprintf("statement %T", s)))
}

// ---- assignment ----

type lval interface {
	load(st *State) Term
	store(st *State, v Term)
	typ() types.Type
}

type varLV struct {
	x *Exec
	v *types.Var
}

func (l varLV) load(st *State) Term     { return l.x.loadVar(st, l.v) }
func (l varLV) store(st *State, v Term) { l.x.storeVar(st, l.v, v) }
func (l varLV) typ() types.Type         { return l.v.Type() }

type blankLV struct{ t types.Type }

func (l blankLV) load(st *State) Term     { panic(unsupported("read of _")) }
func (l blankLV) store(st *State, v Term) {}
func (l blankLV) typ() types.Type         { return l.t }

// heapFieldLV: field of a struct reached through a pointer.
type heapFieldLV struct {
	x   *Exec
	ref Term
	si  *structInfo
	idx int
}

func (l heapFieldLV) load(st *State) Term {
	f := &l.si.Fields[l.idx]
	v := sel(l.x.heapGet(st, fieldHeapName(l.si, f), arraySort(SInt, f.Sort)), l.ref)
	l.x.addReadFacts(st, v, f.Type)
	return v
}
func (l heapFieldLV) store(st *State, v Term) {
	f := &l.si.Fields[l.idx]
	hn := fieldHeapName(l.si, f)
	h := l.x.heapGet(st, hn, arraySort(SInt, f.Sort))
	before := sel(h, l.ref)
	l.x.writeAtVal(st, hn, l.ref, false, &before, &v)
	l.x.heapSet(st, hn, store(h, l.ref, v))
}
func (l heapFieldLV) typ() types.Type { return l.si.Fields[l.idx].Type }

// valFieldLV: field of a struct value held in another lvalue.
type valFieldLV struct {
	x    *Exec
	base lval
	si   *structInfo
	idx  int
}

func (l valFieldLV) load(st *State) Term { return l.x.structField(l.base.load(st), l.si, l.idx) }
func (l valFieldLV) store(st *State, v Term) {
	l.base.store(st, l.x.withField(l.base.load(st), l.si, l.idx, v))
}
func (l valFieldLV) typ() types.Type { return l.si.Fields[l.idx].Type }

type derefLV struct {
	x    *Exec
	ref  Term
	elem types.Type
}

func (l derefLV) load(st *State) Term     { return l.x.loadPtr(st, l.ref, l.elem) }
func (l derefLV) store(st *State, v Term) { l.x.storePtr(st, l.ref, l.elem, v) }
func (l derefLV) typ() types.Type         { return l.elem }

type mapLV struct {
	x   *Exec
	m   Term
	k   Term
	mt  *types.Map
	pos token.Pos
}

func (l mapLV) load(st *State) Term     { v, _ := l.x.mapLookup(st, l.m, l.k, l.mt); return v }
func (l mapLV) store(st *State, v Term) { l.x.mapStore(st, l.m, l.k, v, l.mt, l.pos) }
func (l mapLV) typ() types.Type         { return l.mt.Elem() }

type sliceElemLV struct {
	x    *Exec
	base lval
	idx  Term
	et   types.Type
}

func (l sliceElemLV) load(st *State) Term { return sel(l.x.sliceElemsOf(l.base.load(st)), l.idx) }
func (l sliceElemLV) store(st *State, v Term) {
	s := l.base.load(st)
	elem := l.x.elemOfSliceSort(s.Sort)
	l.base.store(st, l.x.mkSlice(elem, store(l.x.sliceElemsOf(s), l.idx, v), l.x.sliceLen(s), l.x.sliceNonNil(s), l.x.sliceArr(s)))
}
func (l sliceElemLV) typ() types.Type { return l.et }

func (x *Exec) lvalue(e ast.Expr, st *State) lval {
	switch e := e.(type) {
	case *ast.ParenExpr:
		return x.lvalue(e.X, st)
	case *ast.Ident:
		if e.Name == "_" {
			return blankLV{}
		}
		obj := x.info().Defs[e]
		if obj == nil {
			obj = x.info().Uses[e]
		}
		if v, ok := obj.(*types.Var); ok {
			return varLV{x, v}
		}
	case *ast.StarExpr:
		p := x.eval(e.X, st)
		x.nilCheck(st, p, "assignment through "+x.exprString(e.X), e.Pos())
		return derefLV{x, p, x.typeOf(e.X).Underlying().(*types.Pointer).Elem()}
	case *ast.SelectorExpr:
		sel, ok := x.info().Selections[e]
		if !ok {
			if v, ok := x.info().Uses[e.Sel].(*types.Var); ok {
				return varLV{x, v}
			}
			break
		}
		if sel.Kind() != types.FieldVal {
			break
		}
		x.guardCheck(e, st, true)
		return x.fieldLV(e.X, sel.Index(), st, e.Pos())
	case *ast.IndexExpr:
		bt := x.typeOf(e.X)
		switch u := bt.Underlying().(type) {
		case *types.Map:
			m := x.eval(e.X, st)
			k := x.convert(st, x.eval(e.Index, st), x.typeOf(e.Index), u.Key())
			return mapLV{x, m, k, u, e.Pos()}
		case *types.Slice:
			// element writes only on slices held in local variables (value semantics, DESIGN.md 3.3)
			// slices have value semantics (DESIGN.md 3.3): an element write updates the slice value held in
			// the local variable or in the struct field it is written through; backing arrays shared with
			// another slice value are not modelled (listed assumption)
			base := x.lvalue(e.X, st)
			switch base.(type) {
			case varLV, heapFieldLV:
			default:
				panic(unsupported("element write to a slice that is neither a local variable nor a field: " + x.exprString(e)))
			}
			i := x.eval(e.Index, st)
			s := base.load(st)
			x.safety(st, "index", and(mk(SBool, "<=", intLit(0), i), mk(SBool, "<", i, x.sliceLen(s))), "index "+x.exprString(e), e.Pos())
			return sliceElemLV{x, base, i, u.Elem()}
		}
	}
	panic(unsupported("assignment target " + x.exprString(e)))
}

func (x *Exec) noteSliceWrite(v *types.Var) {}

func (x *Exec) fieldLV(baseExpr ast.Expr, path []int, st *State, pos token.Pos) lval {
	bt := x.typeOf(baseExpr)
	var cur lval
	var curRef *Term
	if _, ok := bt.Underlying().(*types.Pointer); ok {
		r := x.eval(baseExpr, st)
		curRef = &r
	} else {
		cur = x.lvalue(baseExpr, st)
	}
	curT := bt
	for _, idx := range path {
		curT = x.subst(types.Unalias(curT))
		if p, ok := curT.Underlying().(*types.Pointer); ok {
			var ref Term
			if curRef != nil {
				ref = *curRef
			} else {
				ref = cur.load(st)
			}
			x.nilCheck(st, ref, "field assignment through nil pointer", pos)
			si := x.structOf(p.Elem())
			cur = heapFieldLV{x, ref, si, idx}
			curRef = nil
			curT = si.Fields[idx].Type
			continue
		}
		si := x.structOf(curT)
		cur = valFieldLV{x, cur, si, idx}
		curT = si.Fields[idx].Type
	}
	return cur
}

// evalMulti evaluates an expression producing n values (call, comma-ok forms).
func (x *Exec) evalMulti(e ast.Expr, st *State, n int) []Term {
	switch e := e.(type) {
	case *ast.ParenExpr:
		return x.evalMulti(e.X, st, n)
	case *ast.CallExpr:
		rs := x.evalCall(e, st)
		if len(rs) != n {
			panic(unsupported(fmt.Sprintf("call yields %d values, want %d", len(rs), n)))
		}
		return rs
	case *ast.IndexExpr:
		if n == 2 {
			if mt, ok := x.typeOf(e.X).Underlying().(*types.Map); ok {
				m := x.eval(e.X, st)
				k := x.convert(st, x.eval(e.Index, st), x.typeOf(e.Index), mt.Key())
				v, has := x.mapLookup(st, m, k, mt)
				return []Term{v, has}
			}
		}
	case *ast.TypeAssertExpr:
		if n == 2 {
			v, ok := x.evalTypeAssert(e, st)
			to := x.typeOf(e.Type)
			return []Term{ite(ok, v, x.zero(to)), ok}
		}
	}
	if n == 1 {
		return []Term{x.eval(e, st)}
	}
	panic(unsupported("multi-value expression " + x.exprString(e)))
}

func (x *Exec) execAssign(s *ast.AssignStmt, st *State) {
	if s.Tok != token.ASSIGN && s.Tok != token.DEFINE {
		// op-assign
		lv := x.lvalue(s.Lhs[0], st)
		cur := lv.load(st)
		rhs := x.eval(s.Rhs[0], st)
		var op token.Token
		switch s.Tok {
		case token.ADD_ASSIGN:
			op = token.ADD
		case token.SUB_ASSIGN:
			op = token.SUB
		case token.MUL_ASSIGN:
			op = token.MUL
		case token.QUO_ASSIGN:
			op = token.QUO
		case token.REM_ASSIGN:
			op = token.REM
		case token.OR_ASSIGN:
			op = token.OR
		case token.AND_ASSIGN:
			op = token.AND
		case token.XOR_ASSIGN:
			op = token.XOR
		case token.SHL_ASSIGN:
			op = token.SHL
		case token.SHR_ASSIGN:
			op = token.SHR
		case token.AND_NOT_ASSIGN:
			op = token.AND_NOT
		default:
			panic(unsupported("assignment operator " + s.Tok.String()))
		}
		t := x.typeOf(s.Lhs[0])
		lv.store(st, x.binop(st, op, cur, rhs, t, x.typeOf(s.Rhs[0]), t, s.Pos()))
		return
	}
	var vals []Term
	var fromTypes []types.Type
	if len(s.Rhs) == 1 && len(s.Lhs) > 1 {
		vals = x.evalMulti(s.Rhs[0], st, len(s.Lhs))
		if tup, ok := x.info().TypeOf(s.Rhs[0]).(*types.Tuple); ok {
			for i := 0; i < tup.Len(); i++ {
				fromTypes = append(fromTypes, tup.At(i).Type())
			}
		}
	} else {
		for _, r := range s.Rhs {
			vals = append(vals, x.eval(r, st))
			fromTypes = append(fromTypes, x.info().TypeOf(r))
		}
	}
	for i, l := range s.Lhs {
		if id, ok := l.(*ast.Ident); ok {
			if id.Name == "_" {
				continue
			}
			if s.Tok == token.DEFINE {
				if v, ok := x.info().Defs[id].(*types.Var); ok {
					if len(s.Rhs) == len(s.Lhs) {
						if lit, ok := ast.Unparen(s.Rhs[i]).(*ast.FuncLit); ok {
							fr := x.top()
							if fr.litVars == nil {
								fr.litVars = map[*types.Var]*ast.FuncLit{}
							}
							fr.litVars[v] = lit
						}
					}
					val := vals[i]
					if i < len(fromTypes) {
						val = x.convertNil(st, val, fromTypes[i], v.Type())
					}
					x.declVar(st, v, val)
					continue
				}
			}
		}
		lv := x.lvalue(l, st)
		val := vals[i]
		if i < len(fromTypes) && lv.typ() != nil {
			val = x.convertNil(st, val, fromTypes[i], lv.typ())
		}
		lv.store(st, val)
	}
}

// convertNil is convert plus "nil to slice" handling.
func (x *Exec) convertNil(st *State, v Term, from, to types.Type) Term {
	if from != nil && isNilType(from) {
		if _, ok := to.Underlying().(*types.Slice); ok {
			return x.zero(to)
		}
		return intLit(0)
	}
	return x.convert(st, v, from, to)
}

// ---- if / switch ----

func (x *Exec) execIf(s *ast.IfStmt, st *State) flow {
	if s.Init != nil {
		f := x.execStmt(s.Init, st)
		if f.normal == nil {
			return f
		}
		st = f.normal
	}
	c := x.eval(s.Cond, st)
	base := st
	var out flow
	var normals []*State
	if c.S != "false" {
		t := base.clone()
		t.assume(c)
		f := x.execBlock(s.Body.List, t)
		normals = append(normals, f.normal)
		out.brk = append(out.brk, f.brk...)
		out.cont = append(out.cont, f.cont...)
	}
	if c.S != "true" {
		e := base.clone()
		e.assume(not(c))
		if s.Else != nil {
			f := x.execStmt(s.Else, e)
			normals = append(normals, f.normal)
			out.brk = append(out.brk, f.brk...)
			out.cont = append(out.cont, f.cont...)
		} else {
			normals = append(normals, e)
		}
	}
	out.normal = x.joinOrReturn(s, base, normals)
	return out
}

// joinOrReturn joins the fall-through states of a branching statement -- except when the statement is
// the last one of the function under contract: then every branch falls off the end of the function, and
// the postconditions are checked per branch (smaller queries than one check after the join).
func (x *Exec) joinOrReturn(node ast.Stmt, base *State, normals []*State) *State {
	if x.tailStmt == nil || x.tailStmt != node || len(x.frames) != 1 {
		return x.join(base, normals)
	}
	fr := x.top()
	for _, n := range normals {
		if n == nil {
			continue
		}
		st := n
		x.tryPath(func() { x.doReturn(fr, st, nil, node.End()) })
	}
	return nil
}

func (x *Exec) execSwitch(s *ast.SwitchStmt, st *State) flow {
	if s.Init != nil {
		f := x.execStmt(s.Init, st)
		if f.normal == nil {
			return f
		}
		st = f.normal
	}
	var tag *Term
	var tagT types.Type
	if s.Tag != nil {
		t := x.eval(s.Tag, st)
		tag = &t
		tagT = x.typeOf(s.Tag)
	}
	base := st
	var out flow
	var normals []*State
	var prior []Term // conditions of earlier cases
	var deflt *ast.CaseClause
	// evaluate every case condition on the base state before any clone is taken
	caseCond := map[*ast.CaseClause]Term{}
	for _, cc := range s.Body.List {
		cl := cc.(*ast.CaseClause)
		if cl.List == nil {
			deflt = cl
			continue
		}
		var conds []Term
		for _, e := range cl.List {
			if tag != nil {
				v := x.eval(e, base)
				conds = append(conds, x.binop(base, token.EQL, *tag, v, tagT, x.typeOf(e), types.Typ[types.Bool], e.Pos()))
			} else {
				conds = append(conds, x.eval(e, base))
			}
		}
		caseCond[cl] = or(conds...)
	}
	for _, cc := range s.Body.List {
		cl := cc.(*ast.CaseClause)
		if cl.List == nil {
			continue
		}
		c := caseCond[cl]
		b := base.clone()
		for _, p := range prior {
			b.assume(not(p))
		}
		b.assume(c)
		prior = append(prior, c)
		f := x.execCaseBody(cl.Body, b)
		normals = append(normals, f.normal)
		out.cont = append(out.cont, f.cont...)
		normals = append(normals, f.brk...) // break leaves the switch
	}
	d := base.clone()
	for _, p := range prior {
		d.assume(not(p))
	}
	if deflt != nil {
		f := x.execCaseBody(deflt.Body, d)
		normals = append(normals, f.normal)
		out.cont = append(out.cont, f.cont...)
		normals = append(normals, f.brk...)
	} else {
		normals = append(normals, d)
	}
	out.normal = x.joinOrReturn(s, base, normals)
	return out
}

func (x *Exec) execCaseBody(body []ast.Stmt, st *State) flow {
	for _, s := range body {
		if b, ok := s.(*ast.BranchStmt); ok && b.Tok == token.FALLTHROUGH {
			panic(unsupported("fallthrough"))
		}
	}
	return x.execBlock(body, st)
}

func (x *Exec) execTypeSwitch(s *ast.TypeSwitchStmt, st *State) flow {
	if s.Init != nil {
		f := x.execStmt(s.Init, st)
		if f.normal == nil {
			return f
		}
		st = f.normal
	}
	var subject ast.Expr
	var bindName *ast.Ident
	switch a := s.Assign.(type) {
	case *ast.AssignStmt:
		bindName = a.Lhs[0].(*ast.Ident)
		subject = a.Rhs[0].(*ast.TypeAssertExpr).X
	case *ast.ExprStmt:
		subject = a.X.(*ast.TypeAssertExpr).X
	}
	v := x.eval(subject, st)
	base := st
	var out flow
	var normals []*State
	var prior []Term
	var deflt *ast.CaseClause
	runCase := func(cl *ast.CaseClause, b *State, single types.Type) {
		if bindName != nil {
			if obj, ok := x.info().Implicits[cl].(*types.Var); ok {
				val := v
				if single != nil && !isInterface(single) {
					val = x.unbox(v, single)
					b.define(tTrue)
				}
				x.declVar(b, obj, val)
			}
		}
		f := x.execCaseBody(cl.Body, b)
		normals = append(normals, f.normal)
		out.cont = append(out.cont, f.cont...)
		normals = append(normals, f.brk...)
	}
	for _, cc := range s.Body.List {
		cl := cc.(*ast.CaseClause)
		if cl.List == nil {
			deflt = cl
			continue
		}
		var conds []Term
		var single types.Type
		for _, e := range cl.List {
			if id, ok := e.(*ast.Ident); ok && id.Name == "nil" {
				conds = append(conds, eq(v, intLit(0)))
				continue
			}
			t := x.typeOf(e)
			_, ok := x.assertTo(base, v, t)
			conds = append(conds, ok)
			if len(cl.List) == 1 {
				single = t
			}
		}
		c := or(conds...)
		b := base.clone()
		for _, p := range prior {
			b.assume(not(p))
		}
		b.assume(c)
		prior = append(prior, c)
		runCase(cl, b, single)
	}
	d := base.clone()
	for _, p := range prior {
		d.assume(not(p))
	}
	if deflt != nil {
		runCase(deflt, d, nil)
	} else {
		normals = append(normals, d)
	}
	out.normal = x.joinOrReturn(s, base, normals)
	return out
}
