package symex

import (
	"fmt"
	"go/types"
	"strings"

	"golang.org/x/tools/go/packages"
)

type bound struct {
	t   Term
	typ types.Type
}

// specEnv evaluates contract expressions in a symbolic state.
type specEnv struct {
	x      *Exec
	st     *State
	old    *State
	binds  map[string]bound
	pkg    *packages.Package
	lets   map[string]*SpecExpr
	loop   *loopCtx
	locals bool
	depth  int
}

type specFail struct{ msg string }

func (e *specEnv) fail(format string, args ...any) {
	panic(specFail{fmt.Sprintf(format, args...)})
}

func (e *specEnv) child() *specEnv {
	n := *e
	n.binds = make(map[string]bound, len(e.binds)+2)
	for k, v := range e.binds {
		n.binds[k] = v
	}
	return &n
}

func (e *specEnv) inOld() *specEnv {
	n := *e
	if e.old != nil {
		n.st = e.old
	}
	return &n
}

func (e *specEnv) evalBool(s *SpecExpr) Term {
	t, _ := e.eval(s)
	if t.Sort != SBool {
		e.fail("expression %s is not boolean (sort %s)", s, t.Sort)
	}
	return t
}

// resolveType parses a Go type written in a contract.
// keysetType is the spec-only type of the key set of a map[string]T (sort (Array Str Bool)).
var keysetType = types.NewNamed(types.NewTypeName(0, nil, "keyset", nil), types.NewStruct(nil, nil), nil)

func (x *Exec) resolveType(pkg *packages.Package, s string) types.Type {
	s = strings.TrimSpace(s)
	if s == "keyset" {
		return keysetType
	}
	switch {
	case strings.HasPrefix(s, "*"):
		return types.NewPointer(x.resolveType(pkg, s[1:]))
	case strings.HasPrefix(s, "[]"):
		return types.NewSlice(x.resolveType(pkg, s[2:]))
	case strings.HasPrefix(s, "map["):
		depth := 0
		for i, c := range s {
			if c == '[' {
				depth++
			}
			if c == ']' {
				depth--
				if depth == 0 {
					return types.NewMap(x.resolveType(pkg, s[4:i]), x.resolveType(pkg, s[i+1:]))
				}
			}
		}
	}
	if i := strings.Index(s, "."); i >= 0 {
		pn, tn := s[:i], s[i+1:]
		for _, imp := range pkg.Imports {
			if imp.Name == pn || imp.Types != nil && imp.Types.Name() == pn {
				if o := imp.Types.Scope().Lookup(tn); o != nil {
					return o.Type()
				}
			}
		}
		// any loaded package of that name
		for _, p := range x.w.Pkgs {
			if p.Types != nil && p.Types.Name() == pn {
				if o := p.Types.Scope().Lookup(tn); o != nil {
					return o.Type()
				}
			}
		}
		panic(specFail{"unknown type " + s})
	}
	if s == "any" {
		return types.Universe.Lookup("any").Type()
	}
	if o := types.Universe.Lookup(s); o != nil {
		if tn, ok := o.(*types.TypeName); ok {
			return tn.Type()
		}
	}
	if o := pkg.Types.Scope().Lookup(s); o != nil {
		if tn, ok := o.(*types.TypeName); ok {
			return tn.Type()
		}
	}
	// defines may live in another package than the function: search all repo packages
	for _, p := range x.w.Pkgs {
		if isRepoPkg(p) && p.Types != nil {
			if o := p.Types.Scope().Lookup(s); o != nil {
				if tn, ok := o.(*types.TypeName); ok {
					return tn.Type()
				}
			}
		}
	}
	panic(specFail{"unknown type " + s})
}

func (e *specEnv) eval(s *SpecExpr) (Term, types.Type) {
	x := e.x
	switch s.Kind {
	case "int":
		return bigLit(s.Val), types.Typ[types.Int]
	case "bool":
		if s.Val == "true" {
			return tTrue, types.Typ[types.Bool]
		}
		return tFalse, types.Typ[types.Bool]
	case "str":
		return x.ctx.StrLit(s.Val), types.Typ[types.String]
	case "nil":
		return intLit(0), types.Typ[types.UntypedNil]
	case "ident":
		return e.evalIdent(s)
	case "old":
		if e.old == nil {
			e.fail("old() used where no pre-state exists")
		}
		return e.inOld().eval(s.Args[0])
	case "unary":
		v, t := e.eval(s.Args[0])
		switch s.Op {
		case "!":
			return not(v), t
		case "-":
			return mk(SInt, "-", v), t
		case "*":
			pt, ok := t.Underlying().(*types.Pointer)
			if !ok {
				e.fail("dereference of non-pointer %s", s.Args[0])
			}
			return e.loadPtr(v, pt.Elem()), pt.Elem()
		}
	case "ite":
		c := e.evalBool(s.Args[0])
		a, ta := e.eval(s.Args[1])
		b, tb := e.eval(s.Args[2])
		a, b = e.unifyNil(a, ta, b, tb)
		if isNilType(ta) {
			ta = tb
		}
		return ite(c, a, b), ta
	case "binary":
		return e.evalBinary(s)
	case "field":
		return e.evalField(s)
	case "index":
		return e.evalIndex(s)
	case "slice":
		b, t := e.eval(s.Args[0])
		lo, _ := e.eval(s.Args[1])
		hi, _ := e.eval(s.Args[2])
		if isStringType(t) {
			return mk(SStr, "ssub", b, lo, hi), t
		}
		e.fail("slice expression on %s", t)
	case "call":
		return e.evalCall(s)
	case "forall", "exists":
		n := e.child()
		var decl []string
		for _, b := range s.Binders {
			t := x.resolveType(e.pkg, b.Type)
			name := "q_" + b.Name
			n.binds[b.Name] = bound{Term{name, x.sortOf(t)}, t}
			decl = append(decl, fmt.Sprintf("(%s %s)", name, x.sortOf(t)))
		}
		body := n.evalBool(s.Args[0])
		return Term{fmt.Sprintf("(%s (%s) %s)", s.Kind, strings.Join(decl, " "), body.S), SBool}, types.Typ[types.Bool]
	}
	e.fail("cannot evaluate %s", s)
	return Term{}, nil
}

func (e *specEnv) loadPtr(p Term, elem types.Type) Term {
	x := e.x
	elem = x.subst(types.Unalias(elem))
	if _, ok := elem.Underlying().(*types.Struct); ok {
		si := x.structOf(elem)
		args := make([]Term, len(si.Fields))
		for i := range si.Fields {
			f := &si.Fields[i]
			args[i] = sel(x.heapGet(e.st, fieldHeapName(si, f), arraySort(SInt, f.Sort)), p)
		}
		return mk(si.Sort, si.Ctor, args...)
	}
	s := x.sortOf(elem)
	return sel(x.heapGet(e.st, ptrHeapName(s), arraySort(SInt, s)), p)
}

func (e *specEnv) unifyNil(a Term, ta types.Type, b Term, tb types.Type) (Term, Term) {
	x := e.x
	if a.Sort == b.Sort {
		return a, b
	}
	if isNilType(ta) {
		return x.zero(tb), b
	}
	if isNilType(tb) {
		return a, x.zero(ta)
	}
	e.fail("sort mismatch %s vs %s", a.Sort, b.Sort)
	return a, b
}

func (e *specEnv) evalIdent(s *SpecExpr) (Term, types.Type) {
	x := e.x
	name := s.Name
	if b, ok := e.binds[name]; ok {
		return b.t, b.typ
	}
	if le, ok := e.lets[name]; ok {
		return e.eval(le)
	}
	if e.loop != nil {
		switch name {
		case "$i":
			if e.loop.idx != nil {
				return *e.loop.idx, types.Typ[types.Int]
			}
		case "$outeri":
			if e.loop.outer != nil && e.loop.outer.idx != nil {
				return *e.loop.outer.idx, types.Typ[types.Int]
			}
		case "$key":
			if e.loop.key != nil {
				return *e.loop.key, e.loop.keyT
			}
		case "$range":
			if e.loop.rangeV != nil {
				return *e.loop.rangeV, e.loop.rangeT
			}
		}
	}
	if e.locals {
		if v := x.findLocal(e.st, name); v != nil {
			return x.loadVar(e.st, v), v.Type()
		}
		// the local may have been renamed: fall back to the declaration ordinal and type recorded
		// on the unchanged tree
		if hint, ok := x.w.LocalHints[x.fn.Name][name]; ok {
			var ord int
			var typ string
			if i := strings.Index(hint, ":"); i > 0 {
				fmt.Sscanf(hint[:i], "%d", &ord)
				typ = hint[i+1:]
			}
			if ord < len(x.localList) {
				v := x.localList[ord]
				if _, inScope := e.st.vars[v]; inScope && v.Type().String() == typ {
					note := fmt.Sprintf("%s -> %s", name, v.Name())
					seen := false
					for _, r := range x.rebound {
						if r == note {
							seen = true
						}
					}
					if !seen {
						x.rebound = append(x.rebound, note)
					}
					return x.loadVar(e.st, v), v.Type()
				}
			}
		}
	}
	if o := e.pkg.Types.Scope().Lookup(name); o != nil {
		switch o := o.(type) {
		case *types.Var:
			return x.heapGet(e.st, globalName(o), x.sortOf(o.Type())), o.Type()
		case *types.Const:
			return x.constTerm(o.Val(), o.Type()), o.Type()
		}
	}
	if d := x.w.lookupDefine(e.pkg.PkgPath, name); d != nil && len(d.Params) == 0 && d.Body != nil {
		return e.eval(d.Body)
	}
	e.fail("unknown identifier %s", name)
	return Term{}, nil
}

// findLocal finds a local variable of the function under verification by name.
func (x *Exec) findLocal(st *State, name string) *types.Var {
	// only variables of the function under verification itself (not of inlined helpers), the one
	// declared last in source order among those in scope
	var best *types.Var
	for _, v := range x.localList {
		if v.Name() == name {
			if _, ok := st.vars[v]; ok {
				best = v
			}
		}
	}
	if best != nil {
		return best
	}
	for _, v := range x.paramVars {
		if v.Name() == name {
			if _, ok := st.vars[v]; ok {
				return v
			}
		}
	}
	// named results of the function under contract
	if len(x.frames) > 0 {
		for _, v := range x.frames[0].results {
			if v != nil && v.Name() == name {
				if _, ok := st.vars[v]; ok {
					return v
				}
			}
		}
	}
	return nil
}

func (e *specEnv) evalBinary(s *SpecExpr) (Term, types.Type) {
	x := e.x
	boolT := types.Typ[types.Bool]
	switch s.Op {
	case "&&":
		return and(e.evalBool(s.Args[0]), e.evalBool(s.Args[1])), boolT
	case "||":
		return or(e.evalBool(s.Args[0]), e.evalBool(s.Args[1])), boolT
	case "==>":
		return implies(e.evalBool(s.Args[0]), e.evalBool(s.Args[1])), boolT
	case "<==>":
		return eq(e.evalBool(s.Args[0]), e.evalBool(s.Args[1])), boolT
	case "in":
		k, kt := e.eval(s.Args[0])
		m, mt := e.eval(s.Args[1])
		mm, ok := mt.Underlying().(*types.Map)
		if !ok {
			e.fail("'in' needs a map, got %s", mt)
		}
		k = e.toType(k, kt, mm.Key())
		mh := x.mapHeap(mm)
		ks, vs := mh.ks, mh.vs
		_, _ = ks, vs
		return and(not(eq(m, intLit(0))), sel(sel(x.heapGet(e.st, mh.has, arraySort(SInt, arraySort(ks, SBool))), m), k)), boolT
	}
	a, ta := e.eval(s.Args[0])
	b, tb := e.eval(s.Args[1])
	switch s.Op {
	case "==", "!=":
		var r Term
		switch {
		case isNilType(tb) && x.isSliceSort(a.Sort):
			r = not(x.sliceNonNil(a))
		case isNilType(ta) && x.isSliceSort(b.Sort):
			r = not(x.sliceNonNil(b))
		default:
			if isInterface(ta) && !isInterface(tb) && !isNilType(tb) {
				b = e.boxPure(b, tb)
			} else if isInterface(tb) && !isInterface(ta) && !isNilType(ta) {
				a = e.boxPure(a, ta)
			}
			a, b = e.unifyNil(a, ta, b, tb)
			r = eq(a, b)
		}
		if s.Op == "!=" {
			r = not(r)
		}
		return r, boolT
	case "<", "<=", ">", ">=":
		if a.Sort == SStr {
			switch s.Op {
			case "<":
				return mk(SBool, "sless", a, b), boolT
			case ">":
				return mk(SBool, "sless", b, a), boolT
			case "<=":
				return not(mk(SBool, "sless", b, a)), boolT
			default:
				return not(mk(SBool, "sless", a, b)), boolT
			}
		}
		return mk(SBool, s.Op, a, b), boolT
	case "+":
		if a.Sort == SStr {
			return mk(SStr, "sconcat", a, b), ta
		}
		return mk(a.Sort, "+", a, b), ta
	case "-", "*":
		return mk(a.Sort, s.Op, a, b), ta
	case "/":
		return x.tdiv(a, b), ta
	case "%":
		return x.tmod(a, b), ta
	}
	e.fail("operator %s", s.Op)
	return Term{}, nil
}

func (x *Exec) isSliceSort(s Sort) bool { _, ok := x.sliceElems[s]; return ok }

// boxPure boxes without adding facts to a state (facts are added as an assumption-free term;
// the injectivity facts come from the executor's own boxing of the same value).
func (e *specEnv) boxPure(v Term, from types.Type) Term {
	from = e.x.subst(types.Unalias(from))
	return e.x.ctx.App("box_"+mangle(typeTagString(from)), SInt, v)
}

func (e *specEnv) toType(v Term, from, to types.Type) Term {
	if isInterface(to) && from != nil && !isInterface(from) && !isNilType(from) {
		return e.boxPure(v, from)
	}
	return v
}

func (e *specEnv) evalField(s *SpecExpr) (Term, types.Type) {
	x := e.x
	// package-qualified constant or variable
	if id := s.Args[0]; id.Kind == "ident" {
		if _, isBound := e.binds[id.Name]; !isBound && x.findLocalOrNil(e, id.Name) == nil {
			if p := x.findPkgByName(e.pkg, id.Name); p != nil {
				o := p.Scope().Lookup(s.Name)
				switch o := o.(type) {
				case *types.Const:
					return x.constTerm(o.Val(), o.Type()), o.Type()
				case *types.Var:
					return x.heapGet(e.st, globalName(o), x.sortOf(o.Type())), o.Type()
				}
				e.fail("unknown %s.%s", id.Name, s.Name)
			}
		}
	}
	b, t := e.eval(s.Args[0])
	t = x.subst(types.Unalias(t))
	obj, path, _ := types.LookupFieldOrMethod(t, true, e.pkg.Types, s.Name)
	if obj == nil {
		// unexported field of a type from another repo package
		if n := namedOf(t); n != nil && n.Obj().Pkg() != nil {
			obj, path, _ = types.LookupFieldOrMethod(t, true, n.Obj().Pkg(), s.Name)
		}
	}
	fv, ok := obj.(*types.Var)
	if !ok || !fv.IsField() {
		e.fail("no field %s in %s", s.Name, t)
	}
	cur, curT := b, t
	for _, idx := range path {
		curT = x.subst(types.Unalias(curT))
		if p, ok := curT.Underlying().(*types.Pointer); ok {
			si := x.structOf(p.Elem())
			f := &si.Fields[idx]
			cur = sel(x.heapGet(e.st, fieldHeapName(si, f), arraySort(SInt, f.Sort)), cur)
			curT = f.Type
			continue
		}
		si := x.structOf(curT)
		cur = x.structField(cur, si, idx)
		curT = si.Fields[idx].Type
	}
	return cur, curT
}

func namedOf(t types.Type) *types.Named {
	if p, ok := t.Underlying().(*types.Pointer); ok {
		t = p.Elem()
	}
	if p, ok := t.(*types.Pointer); ok {
		t = p.Elem()
	}
	n, _ := types.Unalias(t).(*types.Named)
	return n
}

func (x *Exec) findLocalOrNil(e *specEnv, name string) *types.Var {
	if !e.locals {
		return nil
	}
	return x.findLocal(e.st, name)
}

func (x *Exec) findPkgByName(pkg *packages.Package, name string) *types.Package {
	for _, imp := range pkg.Imports {
		if imp.Types != nil && imp.Types.Name() == name {
			return imp.Types
		}
	}
	// well-known packages even if not imported by the package under contract
	for _, p := range x.w.Pkgs {
		if p.Types != nil && p.Types.Name() == name && !isRepoPkg(p) {
			return p.Types
		}
	}
	for _, p := range x.w.Pkgs {
		if p.Types != nil && p.Types.Name() == name {
			return p.Types
		}
	}
	return nil
}

func (e *specEnv) evalIndex(s *SpecExpr) (Term, types.Type) {
	x := e.x
	if id := s.Args[0]; id.Kind == "ident" && id.Name == "$visited" && e.loop != nil && e.loop.visited != nil {
		k, _ := e.eval(s.Args[1])
		return sel(*e.loop.visited, k), types.Typ[types.Bool]
	}
	if id := s.Args[0]; id.Kind == "ident" && id.Name == "$outervisited" && e.loop != nil && e.loop.outer != nil && e.loop.outer.visited != nil {
		k, _ := e.eval(s.Args[1])
		return sel(*e.loop.outer.visited, k), types.Typ[types.Bool]
	}
	b, t := e.eval(s.Args[0])
	i, it := e.eval(s.Args[1])
	switch u := x.subst(types.Unalias(t)).Underlying().(type) {
	case *types.Map:
		i = e.toType(i, it, u.Key())
		mh := x.mapHeap(u)
		ks, vs := mh.ks, mh.vs
		_, _ = ks, vs
		has := and(not(eq(b, intLit(0))), sel(sel(x.heapGet(e.st, mh.has, arraySort(SInt, arraySort(ks, SBool))), b), i))
		val := sel(sel(x.heapGet(e.st, mh.val, arraySort(SInt, arraySort(ks, vs))), b), i)
		return ite(has, val, x.zero(u.Elem())), u.Elem()
	case *types.Slice:
		return sel(x.sliceElemsOf(b), i), u.Elem()
	case *types.Array:
		return sel(x.sliceElemsOf(b), i), u.Elem()
	case *types.Basic:
		if u.Info()&types.IsString != 0 {
			return mk(SInt, "sbyte", b, i), types.Typ[types.Byte]
		}
	}
	e.fail("cannot index %s", t)
	return Term{}, nil
}

func (e *specEnv) evalCall(s *SpecExpr) (Term, types.Type) {
	x := e.x
	fn := s.Args[0]
	args := s.Args[1:]
	intT, boolT, strT := types.Typ[types.Int], types.Typ[types.Bool], types.Typ[types.String]
	if fn.Kind == "ident" {
		switch fn.Name {
		case "len":
			v, t := e.eval(args[0])
			switch u := x.subst(types.Unalias(t)).Underlying().(type) {
			case *types.Slice, *types.Array:
				return x.sliceLen(v), intT
			case *types.Basic:
				return mk(SInt, "slen", v), intT
			case *types.Map:
				mh := x.mapHeap(u)
				ks, vs := mh.ks, mh.vs
				_, _ = ks, vs
				has := sel(x.heapGet(e.st, mh.has, arraySort(SInt, arraySort(ks, SBool))), v)
				return ite(eq(v, intLit(0)), intLit(0), x.mapCard(has)), intT
			}
			e.fail("len of %s", t)
		case "allocated":
			v, _ := e.eval(args[0])
			return and(mk(SBool, "<", intLit(0), v), mk(SBool, "<", v, e.st.alloc)), boolT
		case "fresh":
			v, _ := e.eval(args[0])
			if e.old == nil {
				e.fail("fresh() needs a pre-state")
			}
			return and(mk(SBool, "<=", e.old.alloc, v), mk(SBool, "<", v, e.st.alloc)), boolT
		case "wrap64":
			v, _ := e.eval(args[0])
			return mk(SInt, "wrap64", v), intT
		case "concat":
			a, _ := e.eval(args[0])
			b, _ := e.eval(args[1])
			return mk(SStr, "sconcat", a, b), strT
		case "substr":
			a, _ := e.eval(args[0])
			i, _ := e.eval(args[1])
			j, _ := e.eval(args[2])
			return mk(SStr, "ssub", a, i, j), strT
		case "byteAt":
			a, _ := e.eval(args[0])
			i, _ := e.eval(args[1])
			return mk(SInt, "sbyte", a, i), intT
		case "strLess":
			a, _ := e.eval(args[0])
			b, _ := e.eval(args[1])
			return mk(SBool, "sless", a, b), boolT
		case "dyn":
			a, _ := e.eval(args[0])
			return mk(SInt, "dyn", a), intT
		case "tagof":
			t := x.resolveType(e.pkg, specTypeText(args[0]))
			return x.tagOf(t), intT
		case "unbox":
			// unbox(T, v)
			t := x.resolveType(e.pkg, specTypeText(args[0]))
			v, _ := e.eval(args[1])
			return x.unbox(v, t), t
		case "box":
			v, t := e.eval(args[0])
			if isInterface(x.subst(types.Unalias(t))) || isNilType(t) {
				return v, types.Universe.Lookup("any").Type() // an interface value converts to any unchanged
			}
			return e.boxPure(v, t), types.Universe.Lookup("any").Type()
		case "nonnil":
			v, t := e.eval(args[0])
			if x.isSliceSort(v.Sort) {
				return x.sliceNonNil(v), boolT
			}
			_ = t
			return not(eq(v, intLit(0))), boolT
		case "unchanged":
			a, _ := e.eval(args[0])
			b, _ := e.inOld().eval(args[0])
			_, t := e.eval(args[0])
			if mt, ok := x.subst(types.Unalias(t)).Underlying().(*types.Map); ok {
				// same reference and same contents
				mh := x.mapHeap(mt)
				ks, vs := mh.ks, mh.vs
				_, _ = ks, vs
				h1 := sel(x.heapGet(e.st, mh.has, arraySort(SInt, arraySort(ks, SBool))), a)
				h0 := sel(x.heapGet(e.old, mh.has, arraySort(SInt, arraySort(ks, SBool))), b)
				v1 := sel(x.heapGet(e.st, mh.val, arraySort(SInt, arraySort(ks, vs))), a)
				v0 := sel(x.heapGet(e.old, mh.val, arraySort(SInt, arraySort(ks, vs))), b)
				return and(eq(a, b), eq(h1, h0), eq(v1, v0)), boolT
			}
			return eq(a, b), boolT
		case "string", "int", "int64", "rune", "byte", "uint64", "uint":
			v, vt := e.eval(args[0])
			if fn.Name == "string" && v.Sort == SInt {
				return x.ctx.App("runeToString", SStr, v), strT
			}
			if fn.Name == "string" && v.Sort != SStr {
				_ = vt
				return x.ctx.App("bytesToString_"+sortKey(v.Sort), SStr, v), strT
			}
			return v, x.resolveType(e.pkg, fn.Name)
		case "second", "third":
			idx := 1
			if fn.Name == "third" {
				idx = 2
			}
			return e.nthResult(args[0], idx)
		case "sameExcept":
			// sameExcept(a, b, "F1", "F2", ...): every field of the two struct values (or pointees) other than the named ones is equal
			except := map[string]bool{}
			for _, a := range args[2:] {
				if a.Kind != "str" {
					e.fail("sameExcept: field names must be string literals")
				}
				except[a.Val] = true
			}
			si, getA := e.structFieldsOf(args[0], e)
			si2, getB := e.structFieldsOf(args[1], e)
			if si != si2 {
				e.fail("sameExcept: different struct types")
			}
			var cs []Term
			for i, f := range si.Fields {
				if except[f.Name] {
					delete(except, f.Name)
					continue
				}
				cs = append(cs, eq(getA(i), getB(i)))
			}
			for n := range except {
				e.fail("sameExcept: no field %s", n)
			}
			return and(cs...), boolT
		case "allPtrFieldsSet":
			return e.allPtrFieldsSet(args[0]), boolT
		case "fieldwise":
			if args[0].Kind != "ident" {
				e.fail("fieldwise(kind, src, dest)")
			}
			return e.fieldwise(args[0].Name, args[1], args[2]), boolT
		case "zero":
			t := x.resolveType(e.pkg, specTypeText(args[0]))
			return x.zero(t), t
		case "param":
			// param(k): the k-th parameter of the function under contract (not shadowed by a local of the same name)
			if args[0].Kind != "int" {
				e.fail("param() needs an integer literal")
			}
			var k int
			fmt.Sscanf(args[0].Val, "%d", &k)
			ps := x.fn.Sig.Params()
			if k >= ps.Len() {
				e.fail("param(%d): the function has %d parameters", k, ps.Len())
			}
			v := ps.At(k)
			if _, ok := e.st.vars[v]; !ok {
				e.fail("param(%d) is not a named parameter", k)
			}
			// the entry value (generated code does not assign to its parameters; a later assignment would
			// make this the current value, which is what the forwarding obligations are about anyway)
			return x.loadVar(e.st, v), x.substDeep(v.Type())
		case "produced":
			// produced(v): v was returned by a call through a function value on this path
			v, _ := e.eval(args[0])
			set, ok := e.st.ghost["produced:"+string(v.Sort)]
			if !ok {
				return tFalse, boolT
			}
			return sel(set, v), boolT
		case "argfor", "argforelem":
			// argfor(v, f, k): the interface value v is an admissible k-th argument of the function value f:
			// of exactly the parameter's type, or, for an interface-typed parameter, nil or an implementation
			v, _ := e.eval(args[0])
			_, ft := e.eval(args[1])
			sig, ok := x.subst(types.Unalias(ft)).Underlying().(*types.Signature)
			if !ok || args[2].Kind != "int" {
				e.fail("argfor(v, f, k) needs a function-typed f and an integer literal k")
			}
			var k int
			fmt.Sscanf(args[2].Val, "%d", &k)
			pt := x.substDeep(sig.Params().At(k).Type())
			if fn.Name == "argforelem" {
				sl, ok := pt.Underlying().(*types.Slice)
				if !ok {
					e.fail("argforelem: parameter %d is not variadic", k)
				}
				pt = x.substDeep(sl.Elem())
			}
			if isInterface(pt) {
				if it, _ := pt.Underlying().(*types.Interface); it != nil && it.Empty() {
					return tTrue, boolT
				}
				return or(eq(v, intLit(0)), mk(SBool, "implements", mk(SInt, "dyn", v), x.ctx.Tag("iface:"+typeTagString(pt)))), boolT
			}
			return eq(mk(SInt, "dyn", v), x.tagOf(pt)), boolT
		case "shares":
			// shares(a, b): the slice values a and b have the same backing array (so a write through one
			// is visible through the other)
			a, _ := e.eval(args[0])
			b, _ := e.eval(args[1])
			return and(eq(x.sliceArr(a), x.sliceArr(b)), not(eq(x.sliceArr(a), intLit(0)))), boolT
		case "iszero":
			// iszero(e): e is the zero value of its own static type
			v, t := e.eval(args[0])
			return eq(v, x.zero(x.substDeep(t))), boolT
		case "render":
			t, _ := e.eval(args[0])
			d, dt := e.eval(args[1])
			if !isInterface(dt) {
				d = e.boxPure(d, dt)
			}
			return x.ctx.App("spec_render", SStr, t, d), strT
		case "keys":
			// keys(m): the key set of a map with string keys (empty for a nil map)
			m, mt := e.eval(args[0])
			mm, ok := x.subst(types.Unalias(mt)).Underlying().(*types.Map)
			if !ok {
				e.fail("keys() needs a map")
			}
			mh := x.mapHeap(mm)
			inner := sel(x.heapGet(e.st, mh.has, arraySort(SInt, arraySort(mh.ks, SBool))), m)
			return ite(eq(m, intLit(0)), x.constArray(arraySort(mh.ks, SBool), tFalse), inner), keysetType
		case "seqlen", "seqat":
			// the abstract sequence an external iterator's ForEach visits: seqlen(it), seqat(it, i)
			it, itT := e.eval(args[0])
			if fn.Name == "seqlen" {
				return x.seqLen(it), types.Typ[types.Int]
			}
			obj, _, _ := types.LookupFieldOrMethod(itT, true, nil, "ForEach")
			fe, _ := obj.(*types.Func)
			if fe == nil {
				e.fail("seqat(): the iterator type has no ForEach method")
			}
			fsig := fe.Type().(*types.Signature)
			cb, ok := fsig.Params().At(0).Type().Underlying().(*types.Signature)
			if !ok || cb.Params().Len() != 1 {
				e.fail("seqat(): unexpected ForEach callback type")
			}
			i, _ := e.eval(args[1])
			return x.seqAt(it, i, cb.Params().At(0).Type()), cb.Params().At(0).Type()
		case "has":
			d, _ := e.eval(args[0])
			k, _ := e.eval(args[1])
			return sel(d, k), boolT
		case "sub":
			// sub(d, e): d is a subset of e (uninterpreted, with the defining axioms below)
			d, _ := e.eval(args[0])
			f, _ := e.eval(args[1])
			x.ctx.DeclFun("keyset_sub", []Sort{d.Sort, f.Sort}, SBool)
			ks, _ := arrayParts(d.Sort)
			x.ctx.Axiom(fmt.Sprintf("(forall ((d %s) (e %s)) (! (=> (forall ((k %s)) (=> (select d k) (select e k))) (keyset_sub d e)) :pattern ((keyset_sub d e))))", d.Sort, d.Sort, ks))
			x.ctx.Axiom(fmt.Sprintf("(forall ((d %s) (e %s) (k %s)) (! (=> (and (keyset_sub d e) (select d k)) (select e k)) :pattern ((keyset_sub d e) (select d k))))", d.Sort, d.Sort, ks))
			x.ctx.Axiom(fmt.Sprintf("(forall ((d %s) (e %s) (f %s)) (! (=> (and (keyset_sub d e) (keyset_sub e f)) (keyset_sub d f)) :pattern ((keyset_sub d e) (keyset_sub e f))))", d.Sort, d.Sort, d.Sort))
			return mk(SBool, "keyset_sub", d, f), boolT
		case "now":
			// now(p): the current value of a parameter that the body reassigns (plain p is its entry value)
			if args[0].Kind != "ident" {
				e.fail("now() needs a parameter name")
			}
			if v := x.findLocal(e.st, args[0].Name); v != nil {
				return x.loadVar(e.st, v), v.Type()
			}
			e.fail("unknown identifier %s", args[0].Name)
		case "called":
			// called("Name"): how many calls of the function (short name or full external name) happened so far on this path
			if args[0].Kind != "str" {
				e.fail("called() needs a string literal")
			}
			if v, ok := e.st.ghost["called:"+args[0].Val]; ok {
				return v, intT
			}
			return x.ghostDefault(e.st, "called:"+args[0].Val), intT
		case "lastErr":
			if args[0].Kind != "str" {
				e.fail("lastErr() needs a string literal")
			}
			if v, ok := e.st.ghost["lasterr:"+args[0].Val]; ok {
				return v, types.Universe.Lookup("error").Type()
			}
			return x.ghostDefault(e.st, "lasterr:"+args[0].Val), types.Universe.Lookup("error").Type() // never called: not nil
		case "exited":
			return e.ghostBool("exited"), boolT
		case "applied":
			// applied(): number of calls through function values made so far on this path
			if v, ok := e.st.ghost["invocations"]; ok {
				return v, intT
			}
			return intLit(0), intT
		case "lastfn", "lastarg", "lastres":
			k := fn.Name
			if fn.Name != "lastfn" {
				if args[0].Kind != "int" {
					e.fail("%s() needs an integer literal", fn.Name)
				}
				k = fn.Name + ":" + args[0].Val
			}
			v, ok := e.st.ghost[k]
			if !ok {
				// no call through a function value on this path: an unknown value (of the type of the
				// corresponding result of the function under contract, for lastres)
				if fn.Name == "lastres" {
					var i int
					fmt.Sscanf(args[0].Val, "%d", &i)
					if rs := x.fn.Sig.Results(); i < rs.Len() {
						t := x.substDeep(rs.At(i).Type())
						return x.ctx.Fresh("nolastres", x.sortOf(t)), t
					}
				}
				e.fail("%s: no call through a function value on this path", k)
			}
			return v, x.applyTypes[k]
		case "locked":
			// locked(p.f): the executing goroutine holds lock field f of *p (write lock, or at least one read lock)
			key, obj := e.lockKey(args[0])
			w, r := x.lockArrays(e.st, key)
			return or(sel(w, obj), mk(SBool, ">", sel(r, obj), intLit(0))), boolT
		}
		// let-bound abbreviations with no arguments are idents; defines with parameters:
		if d := x.w.lookupDefine(e.pkg.PkgPath, fn.Name); d != nil {
			return e.applyDefine(d, args)
		}
		// a function of the package under contract used as a pure function
		if o, ok := e.pkg.Types.Scope().Lookup(fn.Name).(*types.Func); ok {
			return e.applyFunc(o, nil, args)
		}
		e.fail("unknown spec function %s", fn.Name)
	}
	if fn.Kind == "field" {
		// pkg.F(args)
		if id := fn.Args[0]; id.Kind == "ident" {
			if _, isBound := e.binds[id.Name]; !isBound && x.findLocalOrNil(e, id.Name) == nil {
				if p := x.findPkgByName(e.pkg, id.Name); p != nil {
					if tn, ok := p.Scope().Lookup(fn.Name).(*types.TypeName); ok && len(args) == 1 {
						v, _ := e.eval(args[0]) // conversion to a named type of another package
						return v, tn.Type()
					}
					o, _ := p.Scope().Lookup(fn.Name).(*types.Func)
					if o == nil {
						e.fail("unknown function %s.%s", id.Name, fn.Name)
					}
					return e.applyFunc(o, nil, args)
				}
			}
		}
		// method call recv.M(args): pure uninterpreted function of the receiver
		recv, rt := e.eval(fn.Args[0])
		obj, _, _ := types.LookupFieldOrMethod(rt, true, e.pkg.Types, fn.Name)
		m, ok := obj.(*types.Func)
		if !ok {
			e.fail("no method %s on %s", fn.Name, rt)
		}
		return e.applyFuncT(m, &recv, rt, args)
	}
	e.fail("cannot call %s", fn)
	return Term{}, nil
}

// nthResult evaluates the idx-th result of a multi-result pure call pkg.F(args).
func (e *specEnv) nthResult(call *SpecExpr, idx int) (Term, types.Type) {
	x := e.x
	if call.Kind != "call" || call.Args[0].Kind != "field" {
		e.fail("second()/third() need a call pkg.F(args) or recv.M(args)")
	}
	fnE := call.Args[0]
	var o *types.Func
	var recvT *Term
	var recvStatic types.Type
	isPkg := false
	if fnE.Args[0].Kind == "ident" {
		if _, isBound := e.binds[fnE.Args[0].Name]; !isBound && x.findLocalOrNil(e, fnE.Args[0].Name) == nil {
			if p := x.findPkgByName(e.pkg, fnE.Args[0].Name); p != nil {
				isPkg = true
				o, _ = p.Scope().Lookup(fnE.Name).(*types.Func)
				if o == nil {
					e.fail("unknown function %s.%s", fnE.Args[0].Name, fnE.Name)
				}
			}
		}
	}
	if !isPkg {
		recv, rt := e.eval(fnE.Args[0])
		obj, _, _ := types.LookupFieldOrMethod(rt, true, e.pkg.Types, fnE.Name)
		m, ok := obj.(*types.Func)
		if !ok {
			e.fail("no method %s on %s", fnE.Name, rt)
		}
		o = m
		recvT = &recv
		recvStatic = rt
	}
	sig := o.Type().(*types.Signature)
	if idx >= sig.Results().Len() {
		e.fail("function %s has no result %d", o.Name(), idx)
	}
	var ts []Term
	if recvT != nil {
		ts = append(ts, *recvT)
	}
	for i, a := range call.Args[1:] {
		v, vt := e.eval(a)
		if i < sig.Params().Len() {
			v = e.toType(v, vt, sig.Params().At(i).Type())
		}
		ts = append(ts, v)
	}
	if extName(o) == "regexp.MatchString" && idx == 1 {
		ts = ts[:1] // the error depends on the pattern only
	}
	rt := sig.Results().At(idx).Type()
	return x.ctx.App(fmt.Sprintf("%s_r%d", methodSym(o, recvStatic), idx), x.sortOf(rt), ts...), rt
}

func specTypeText(s *SpecExpr) string {
	switch s.Kind {
	case "type":
		return s.Val
	case "ident":
		return s.Name
	case "unary":
		return s.Op + specTypeText(s.Args[0])
	case "field":
		return specTypeText(s.Args[0]) + "." + s.Name
	}
	return s.String()
}

func (e *specEnv) ghostBool(name string) Term {
	if v, ok := e.st.ghost[name]; ok {
		return v
	}
	return tFalse
}

// mapCard is the cardinality of a key set (uninterpreted, with the facts needed).
func (x *Exec) mapCard(has Term) Term {
	c := x.ctx.App("mapcard_"+sortKey(has.Sort), SInt, has)
	ks, _ := arrayParts(has.Sort)
	x.ctx.Axiom(fmt.Sprintf("(forall ((h %s)) (! (>= (mapcard_%s h) 0) :pattern ((mapcard_%s h))))", has.Sort, sortKey(has.Sort), sortKey(has.Sort)))
	x.ctx.Axiom(fmt.Sprintf("(forall ((h %s) (k %s)) (! (=> (select h k) (> (mapcard_%s h) 0)) :pattern ((select h k) (mapcard_%s h))))", has.Sort, ks, sortKey(has.Sort), sortKey(has.Sort)))
	x.ctx.Axiom(fmt.Sprintf("(= (mapcard_%s ((as const %s) false)) 0)", sortKey(has.Sort), has.Sort))
	return c
}

// applyDefine expands a macro or applies an uninterpreted spec function.
func (e *specEnv) applyDefine(d *Define, args []*SpecExpr) (Term, types.Type) {
	x := e.x
	if len(args) != len(d.Params) {
		e.fail("%s expects %d arguments", d.Name, len(d.Params))
	}
	if e.depth > 12 {
		e.fail("define expansion too deep at %s", d.Name)
	}
	dpkg := x.w.Pkgs[d.PkgPath]
	if d.Body == nil {
		var ts []Term
		for i, a := range args {
			v, vt := e.eval(a)
			pt := x.resolveType(dpkg, d.Params[i].Type)
			ts = append(ts, e.toType(v, vt, pt))
		}
		rt := x.resolveType(dpkg, d.Result)
		return x.ctx.App("spec_"+d.Name, x.sortOf(rt), ts...), rt
	}
	n := e.child()
	n.depth = e.depth + 1
	n.pkg = dpkg
	n.lets = nil
	n.locals = false
	for i, a := range args {
		v, vt := e.eval(a)
		pt := x.resolveType(dpkg, d.Params[i].Type)
		n.binds[d.Params[i].Name] = bound{e.toType(v, vt, pt), pt}
	}
	v, t := n.eval(d.Body)
	if d.Result != "" {
		t = x.resolveType(dpkg, d.Result)
	}
	return v, t
}

// applyFunc applies a Go function as a pure uninterpreted function (the same symbol the
// executor uses for pure external calls).
func (e *specEnv) applyFunc(fn *types.Func, recv *Term, args []*SpecExpr) (Term, types.Type) {
	return e.applyFuncT(fn, recv, nil, args)
}

func (e *specEnv) applyFuncT(fn *types.Func, recv *Term, recvT types.Type, args []*SpecExpr) (Term, types.Type) {
	x := e.x
	sig := fn.Type().(*types.Signature)
	var ts []Term
	if recv != nil {
		ts = append(ts, *recv)
	}
	np := sig.Params().Len()
	for i, a := range args {
		if sig.Variadic() && i >= np-1 {
			break
		}
		v, vt := e.eval(a)
		if i < np {
			v = e.toType(v, vt, sig.Params().At(i).Type())
		}
		ts = append(ts, v)
	}
	if sig.Variadic() {
		// pack the variadic arguments exactly as the executor does
		st0 := sig.Params().At(np - 1).Type().Underlying().(*types.Slice)
		elem := x.sortOf(st0.Elem())
		arr := x.constArray(arraySort(SInt, elem), x.zero(st0.Elem()))
		n := 0
		for i := np - 1; i < len(args); i++ {
			v, vt := e.eval(args[i])
			arr = store(arr, intLit(int64(n)), e.toType(v, vt, st0.Elem()))
			n++
		}
		ts = append(ts, x.mkSlice(elem, arr, intLit(int64(n)), Term{fmt.Sprint(n > 0), SBool}, intLit(0)))
	}
	if sig.Results().Len() == 0 {
		e.fail("function %s has no result", fn.Name())
	}
	rt := sig.Results().At(0).Type()
	name := methodSym(fn, recvT)
	if sig.Results().Len() > 1 {
		name += "_r0"
	}
	return x.ctx.App(name, x.sortOf(rt), ts...), rt
}

func pureName(fn *types.Func) string { return "f_" + mangle(fn.FullName()) }

// methodSym names the uninterpreted function of a method applied to a receiver of static type recvT.
// A method promoted from an embedded struct (go/types' object.Type, object.Name, ...) gets one symbol
// per static receiver type: (*types.Func).Type and (*types.Var).Type are different functions.
func methodSym(fn *types.Func, recvT types.Type) string {
	if recvT == nil {
		return pureName(fn)
	}
	t := types.Unalias(recvT)
	if p, ok := t.(*types.Pointer); ok {
		t = types.Unalias(p.Elem())
	}
	n, ok := t.(*types.Named)
	if !ok {
		return pureName(fn)
	}
	sig := fn.Type().(*types.Signature)
	if r := sig.Recv(); r != nil {
		rt := types.Unalias(r.Type())
		if p, ok := rt.(*types.Pointer); ok {
			rt = types.Unalias(p.Elem())
		}
		if rn, ok := rt.(*types.Named); ok && rn.Obj() == n.Obj() {
			return pureName(fn) // declared on this very type
		}
	}
	pkg := ""
	if n.Obj().Pkg() != nil {
		pkg = n.Obj().Pkg().Path() + "."
	}
	return "f_" + mangle(pkg+n.Obj().Name()+"."+fn.Name())
}

// funcEnv is the spec environment of the function under verification at state st.
func (x *Exec) funcEnv(st *State) *specEnv {
	env := &specEnv{x: x, st: st, old: x.old, binds: map[string]bound{}, pkg: x.fn.Pkg}
	if x.contract != nil {
		env.lets = x.contract.LetExprs
	}
	for i, v := range x.paramVars {
		// parameters denote their entry values (contracts talk about arguments)
		env.binds[v.Name()] = bound{x.paramTerms[i], v.Type()}
	}
	return env
}

// structFieldsOf returns the struct info and a reader for the fields of a struct value or pointer.
func (e *specEnv) structFieldsOf(s *SpecExpr, env *specEnv) (*structInfo, func(i int) Term) {
	x := e.x
	v, t := env.eval(s)
	t = x.subst(types.Unalias(t))
	if p, ok := t.Underlying().(*types.Pointer); ok {
		si := x.structOf(p.Elem())
		return si, func(i int) Term {
			f := &si.Fields[i]
			return sel(x.heapGet(env.st, fieldHeapName(si, f), arraySort(SInt, f.Sort)), v)
		}
	}
	si := x.structOf(t)
	return si, func(i int) Term { return x.structField(v, si, i) }
}

// allPtrFieldsSet(v): every pointer-typed field of the struct (value or pointer) is non-nil.
// The field list comes from go/types on every run (DESIGN.md A.3 "wf").
func (e *specEnv) allPtrFieldsSet(s *SpecExpr) Term {
	si, get := e.structFieldsOf(s, e)
	var cs []Term
	if _, t := e.eval(s); t != nil {
		if _, ok := e.x.subst(types.Unalias(t)).Underlying().(*types.Pointer); ok {
			v, _ := e.eval(s)
			cs = append(cs, not(eq(v, intLit(0))))
		}
	}
	for i, f := range si.Fields {
		if _, ok := f.Type.Underlying().(*types.Pointer); ok {
			cs = append(cs, not(eq(get(i), intLit(0))))
		}
	}
	return and(cs...)
}

// fieldwise(kind, src, dest): the per-field postcondition schema of a hierarchical merge
// (DESIGN.md 6 C08), instantiated for every field of the struct from go/types:
//
//	ptr      pointer fields: the more specific level (dest) wins; otherwise a fresh copy of src's value
//	zeroable slices and maps other than map[string]any: dest if set, else src
//	strmap   map[string]any fields: key-by-key merge, dest wins
func (e *specEnv) fieldwise(kind string, src, dest *SpecExpr) Term {
	parts := e.fieldwiseParts(kind, src, dest)
	var cs []Term
	for _, p := range parts {
		cs = append(cs, p.T)
	}
	return and(cs...)
}

type fieldPart struct {
	Name string
	T    Term
}

func (e *specEnv) fieldwiseParts(kind string, src, dest *SpecExpr) []fieldPart {
	x := e.x
	if e.old == nil {
		e.fail("fieldwise needs a pre-state")
	}
	old := e.inOld()
	si, srcGet := e.structFieldsOf(src, old)
	_, newGet := e.structFieldsOf(dest, e)
	_, oldGet := e.structFieldsOf(dest, old)
	var parts []fieldPart
	var cs []Term
	flush := func(name string) {
		if len(cs) > 0 {
			parts = append(parts, fieldPart{name, and(cs...)})
			cs = nil
		}
	}
	for i, f := range si.Fields {
		ft := x.subst(types.Unalias(f.Type))
		fname := f.Name
		_ = fname
		switch u := ft.Underlying().(type) {
		case *types.Pointer:
			if kind != "ptr" {
				continue
			}
			n, o, sv := newGet(i), oldGet(i), srcGet(i)
			elemS := x.sortOf(u.Elem())
			hNew := x.heapGet(e.st, ptrHeapName(elemS), arraySort(SInt, elemS))
			hOld := x.heapGet(old.st, ptrHeapName(elemS), arraySort(SInt, elemS))
			wasSet := not(eq(o, intLit(0)))
			parts = append(parts, fieldPart{fname, and(
				not(eq(n, intLit(0))),
				eq(sel(hNew, n), ite(wasSet, sel(hOld, o), sel(hOld, sv))),
				implies(wasSet, eq(n, o)),
				implies(not(wasSet), and(mk(SBool, "<=", old.st.alloc, n), mk(SBool, "<", n, e.st.alloc))))})
		case *types.Map:
			isStrMap := false
			if b, ok := u.Key().Underlying().(*types.Basic); ok && b.Kind() == types.String {
				if it, ok := u.Elem().Underlying().(*types.Interface); ok && it.Empty() {
					isStrMap = true
				}
			}
			n, o, sv := newGet(i), oldGet(i), srcGet(i)
			if isStrMap {
				if kind != "strmap" {
					continue
				}
				mh := x.mapHeap(u)
				HN := x.heapGet(e.st, mh.has, arraySort(SInt, arraySort(mh.ks, SBool)))
				VN := x.heapGet(e.st, mh.val, arraySort(SInt, arraySort(mh.ks, mh.vs)))
				HO := x.heapGet(old.st, mh.has, arraySort(SInt, arraySort(mh.ks, SBool)))
				VO := x.heapGet(old.st, mh.val, arraySort(SInt, arraySort(mh.ks, mh.vs)))
				wasSet := not(eq(o, intLit(0)))
				in := func(H, m Term) string {
					return fmt.Sprintf("(and (not (= %s 0)) (select (select %s %s) k))", m.S, H.S, m.S)
				}
				val := func(H, V, m Term) string {
					return fmt.Sprintf("(ite %s (select (select %s %s) k) 0)", in(H, m), V.S, m.S)
				}
				parts = append(parts, fieldPart{fname, and(
					not(eq(n, intLit(0))),
					implies(wasSet, eq(n, o)),
					implies(not(wasSet), and(mk(SBool, "<=", old.st.alloc, n), mk(SBool, "<", n, e.st.alloc))),
					Term{fmt.Sprintf("(forall ((k Str)) (= %s (or %s %s)))", in(HN, n), in(HO, o), in(HO, sv)), SBool},
					Term{fmt.Sprintf("(forall ((k Str)) (=> %s (= %s %s)))", in(HO, o), val(HN, VN, n), val(HO, VO, o)), SBool},
					Term{fmt.Sprintf("(forall ((k Str)) (=> (and %s (not %s)) (= %s %s)))", in(HO, sv), in(HO, o), val(HN, VN, n), val(HO, VO, sv)), SBool})})
				continue
			}
			if kind != "zeroable" {
				continue
			}
			parts = append(parts, fieldPart{fname, eq(n, ite(eq(o, intLit(0)), sv, o))})
		case *types.Slice:
			if kind != "zeroable" {
				continue
			}
			n, o, sv := newGet(i), oldGet(i), srcGet(i)
			parts = append(parts, fieldPart{fname, eq(n, ite(x.sliceNonNil(o), o, sv))})
		default:
			if kind != "zeroable" {
				continue
			}
			n, o, sv := newGet(i), oldGet(i), srcGet(i)
			parts = append(parts, fieldPart{fname, eq(n, ite(eq(o, x.zero(ft)), sv, o))})
		}
	}
	_ = flush
	if len(parts) == 0 && len(cs) == 0 {
		e.fail("fieldwise(%s): no field of that kind", kind)
	}
	return parts
}

// lockKey resolves a spec expression base.field naming a lock to the ghost key and the object.
func (e *specEnv) lockKey(a *SpecExpr) (string, Term) {
	x := e.x
	if a.Kind != "field" {
		e.fail("locked() needs an expression p.lockField")
	}
	base, bt := e.eval(a.Args[0])
	p, ok := x.subst(types.Unalias(bt)).Underlying().(*types.Pointer)
	if !ok {
		e.fail("locked(): %s is not a pointer", a.Args[0].String())
	}
	si := x.structOf(p.Elem())
	_, f := si.field(a.Name)
	if f == nil {
		e.fail("locked(): no field %s", a.Name)
	}
	return fieldHeapName(si, f), base
}
