package symex

import (
	"fmt"
	"go/types"
	"strconv"
	"strings"
)

type fieldInfo struct {
	Name string
	Sort Sort
	Type types.Type
	Sel  string // datatype selector
}

type structInfo struct {
	Key    string // stable name
	Sort   Sort
	Ctor   string
	Fields []fieldInfo
	Struct *types.Struct
}

// typeEnv maps type parameters to the instantiation under verification.
type typeEnv map[*types.TypeParam]types.Type

func (x *Exec) subst(t types.Type) types.Type {
	if tp, ok := t.(*types.TypeParam); ok {
		if r, ok := x.tenv[tp]; ok {
			return r
		}
	}
	return t
}

// sortOf maps a Go type to its SMT sort (DESIGN.md 3.3).
func (x *Exec) sortOf(t types.Type) Sort {
	t = x.subst(types.Unalias(t))
	if isLogType(t) {
		return SInt // logging values are opaque (DESIGN.md 3.6 "Dropped")
	}
	if isReflectType(t) {
		return SInt // descriptors, resolved statically (DESIGN.md 3.5)
	}
	if t == keysetType {
		return arraySort(SStr, SBool)
	}
	switch u := t.Underlying().(type) {
	case *types.Basic:
		switch {
		case u.Info()&types.IsBoolean != 0:
			return SBool
		case u.Info()&types.IsInteger != 0:
			return SInt
		case u.Info()&types.IsString != 0:
			return SStr
		case u.Info()&types.IsFloat != 0:
			return SReal
		case u.Kind() == types.UnsafePointer, u.Kind() == types.UntypedNil:
			return SInt
		}
		return SInt
	case *types.Pointer, *types.Map, *types.Interface, *types.Signature, *types.Chan:
		return SInt
	case *types.Slice:
		return x.sliceSort(x.sortOf(u.Elem()))
	case *types.Array:
		return x.sliceSort(x.sortOf(u.Elem()))
	case *types.Struct:
		return x.structOf(t).Sort
	case *types.TypeParam:
		return SInt
	case *types.Tuple:
		return SInt
	}
	panic(unsupported("sort of type " + t.String()))
}

func sortKey(s Sort) string { return mangle(string(s)) }

func (x *Exec) sliceSort(elem Sort) Sort {
	k := sortKey(elem)
	name := "Slc_" + k
	if !x.ctx.declared[name] {
		x.ctx.declRaw(name, fmt.Sprintf("(declare-datatypes ((%s 0)) (((mk_%s (elems_%s (Array Int %s)) (len_%s Int) (nn_%s Bool) (arr_%s Int)))))", name, name, k, elem, k, k, k))
	}
	x.sliceElems[Sort(name)] = elem
	return Sort(name)
}

// mkSlice builds a slice value. arr is the identity of the backing array (0: none that could be shared
// with another slice value -- nil slices and the arrays the compiler allocates for variadic calls); it
// is tracked only to answer "do these two slice values share storage" (shares(a, b) in contracts);
// element values keep value semantics.
func (x *Exec) mkSlice(elem Sort, elems, ln, nn, arr Term) Term {
	s := x.sliceSort(elem)
	x.sliceElems[s] = elem
	return mk(s, "mk_"+string(s), elems, ln, nn, arr)
}

func (x *Exec) sliceArr(sl Term) Term {
	elem := x.elemOfSliceSort(sl.Sort)
	return mk(SInt, "arr_"+sortKey(elem), sl)
}

func (x *Exec) sliceElemsOf(sl Term) Term {
	elem := x.elemOfSliceSort(sl.Sort)
	k := sortKey(elem)
	return mk(arraySort(SInt, elem), "elems_"+k, sl)
}

func (x *Exec) sliceLen(sl Term) Term {
	elem := x.elemOfSliceSort(sl.Sort)
	// the length of a slice constructor with a literal length folds (loops over a literal slice unroll)
	if pre := "(mk_" + string(sl.Sort) + " "; strings.HasPrefix(sl.S, pre) {
		if args := sexprArgs(sl.S); len(args) == 5 {
			if _, err := strconv.Atoi(args[2]); err == nil {
				return Term{args[2], SInt}
			}
		}
	}
	return mk(SInt, "len_"+sortKey(elem), sl)
}

func (x *Exec) sliceNonNil(sl Term) Term {
	elem := x.elemOfSliceSort(sl.Sort)
	return mk(SBool, "nn_"+sortKey(elem), sl)
}

func (x *Exec) elemOfSliceSort(s Sort) Sort {
	if e, ok := x.sliceElems[s]; ok {
		return e
	}
	panic("not a slice sort: " + string(s))
}

func structKey(t types.Type) string {
	if n, ok := types.Unalias(t).(*types.Named); ok {
		p := ""
		if n.Obj().Pkg() != nil {
			p = n.Obj().Pkg().Name() + "_"
		}
		k := p + n.Obj().Name()
		if n.TypeArgs() != nil {
			for i := 0; i < n.TypeArgs().Len(); i++ {
				k += "_" + mangle(n.TypeArgs().At(i).String())
			}
		}
		return k
	}
	return "anon_" + mangle(t.Underlying().String())
}

func (x *Exec) structOf(t types.Type) *structInfo {
	t = types.Unalias(t)
	key := structKey(t)
	if si, ok := x.ctx.structs[key]; ok {
		return si
	}
	st, ok := t.Underlying().(*types.Struct)
	if !ok {
		panic(unsupported("structOf non-struct " + t.String()))
	}
	si := &structInfo{Key: key, Sort: Sort("St_" + key), Ctor: "mk_St_" + key, Struct: st}
	x.ctx.structs[key] = si // before recursion
	var fs []string
	for i := 0; i < st.NumFields(); i++ {
		f := st.Field(i)
		fi := fieldInfo{Name: f.Name(), Type: f.Type(), Sort: x.sortOf(f.Type()), Sel: fmt.Sprintf("St_%s_%s", key, f.Name())}
		si.Fields = append(si.Fields, fi)
		fs = append(fs, fmt.Sprintf("(%s %s)", fi.Sel, fi.Sort))
	}
	x.ctx.declRaw(string(si.Sort), fmt.Sprintf("(declare-datatypes ((%s 0)) (((%s %s))))", si.Sort, si.Ctor, strings.Join(fs, " ")))
	return si
}

func (si *structInfo) field(name string) (int, *fieldInfo) {
	for i := range si.Fields {
		if si.Fields[i].Name == name {
			return i, &si.Fields[i]
		}
	}
	return -1, nil
}

// heap names

func fieldHeapName(si *structInfo, f *fieldInfo) string { return "F_" + si.Key + "_" + f.Name }
func ptrHeapName(s Sort) string                         { return "Hp_" + sortKey(s) }

// mapHeapInfo names the two heap arrays of a Go map type. Maps of different Go types live in
// different arrays (type-based separation: a map[string]any is never a map[string]*Package).
type mapHeapInfo struct {
	has, val string
	ks, vs   Sort
}

func (x *Exec) mapHeap(mt *types.Map) mapHeapInfo {
	ks, vs := x.sortOf(mt.Key()), x.sortOf(mt.Elem())
	k := mangle(types.TypeString(x.substDeep(mt.Key()), shortQual)) + "__" + mangle(types.TypeString(x.substDeep(mt.Elem()), shortQual))
	return mapHeapInfo{has: "Mh_" + k, val: "Mv_" + k, ks: ks, vs: vs}
}

func shortQual(p *types.Package) string { return p.Name() }

// zero returns the zero value of a Go type.
func (x *Exec) zero(t types.Type) Term {
	t = x.subst(types.Unalias(t))
	s := x.sortOf(t)
	return x.zeroOfSort(s, t)
}

func (x *Exec) zeroOfSort(s Sort, t types.Type) Term {
	switch s {
	case SBool:
		return tFalse
	case SInt:
		return intLit(0)
	case SStr:
		return x.ctx.StrLit("")
	case SReal:
		return Term{"0.0", SReal}
	}
	if e, ok := x.sliceElems[s]; ok {
		return x.mkSlice(e, x.constArray(arraySort(SInt, e), x.zeroOfSort(e, elemTypeOf(t))), intLit(0), tFalse, intLit(0))
	}
	if t != nil {
		if _, ok := t.Underlying().(*types.Struct); ok {
			si := x.structOf(t)
			args := make([]Term, len(si.Fields))
			for i, f := range si.Fields {
				args[i] = x.zero(f.Type)
			}
			return mk(si.Sort, si.Ctor, args...)
		}
		if sl, ok := t.Underlying().(*types.Slice); ok {
			e := x.sortOf(sl.Elem())
			return x.mkSlice(e, x.constArray(arraySort(SInt, e), x.zero(sl.Elem())), intLit(0), tFalse, intLit(0))
		}
	}
	// unknown structured sort: a fixed constant per sort
	name := "zero_" + sortKey(s)
	x.ctx.declRaw(name, fmt.Sprintf("(declare-const %s %s)", name, s))
	return Term{name, s}
}

func elemTypeOf(t types.Type) types.Type {
	if t == nil {
		return nil
	}
	switch u := t.Underlying().(type) {
	case *types.Slice:
		return u.Elem()
	case *types.Array:
		return u.Elem()
	}
	return nil
}

func (x *Exec) constArray(s Sort, v Term) Term {
	if isValueLiteral(v.S) {
		return Term{fmt.Sprintf("((as const %s) %s)", s, v.S), s}
	}
	// cvc5 accepts only value constants in (as const ...): use a named array with an axiom
	name := "constarr_" + sortKey(s) + "_" + mangle(truncate(v.S, 40))
	if !x.ctx.declared[name] {
		x.ctx.declRaw(name, fmt.Sprintf("(declare-const %s %s)", name, s))
		k, _ := arrayParts(s)
		x.ctx.Axiom(fmt.Sprintf("(forall ((i %s)) (! (= (select %s i) %s) :pattern ((select %s i))))", k, name, v.S, name))
	}
	return Term{name, s}
}

func isValueLiteral(s string) bool {
	if s == "true" || s == "false" {
		return true
	}
	if len(s) == 0 {
		return false
	}
	for _, c := range s {
		if !(c >= '0' && c <= '9' || c == '.') {
			return strings.HasPrefix(s, "(- ") && isValueLiteral(strings.TrimSuffix(s[3:], ")"))
		}
	}
	return true
}

// typeFacts returns the type invariants of a value of Go type t (DESIGN.md 3.3).
func (x *Exec) typeFacts(v Term, t types.Type) []Term {
	t = x.subst(types.Unalias(t))
	var out []Term
	switch u := t.Underlying().(type) {
	case *types.Basic:
		if u.Info()&types.IsInteger != 0 {
			lo, hi := intRange(u)
			if lo != "" {
				out = append(out, mk(SBool, "<=", bigLit(lo), v), mk(SBool, "<=", v, bigLit(hi)))
			}
		}
	case *types.Slice:
		out = append(out, mk(SBool, ">=", x.sliceLen(v), intLit(0)))
		out = append(out, implies(not(x.sliceNonNil(v)), eq(x.sliceLen(v), intLit(0))))
	case *types.Pointer, *types.Map, *types.Signature, *types.Chan:
		out = append(out, mk(SBool, ">=", v, intLit(0)))
	}
	return out
}

func intRange(b *types.Basic) (string, string) {
	switch b.Kind() {
	case types.Int, types.Int64, types.UntypedInt:
		return "-9223372036854775808", "9223372036854775807"
	case types.Int32, types.UntypedRune:
		return "-2147483648", "2147483647"
	case types.Int16:
		return "-32768", "32767"
	case types.Int8:
		return "-128", "127"
	case types.Uint, types.Uint64, types.Uintptr:
		return "0", "18446744073709551615"
	case types.Uint32:
		return "0", "4294967295"
	case types.Uint16:
		return "0", "65535"
	case types.Uint8:
		return "0", "255"
	}
	return "", ""
}

// sexprArgs splits "(f a (b c) d)" into ["f", "a", "(b c)", "d"].
func sexprArgs(s string) []string {
	if len(s) < 2 || s[0] != '(' || s[len(s)-1] != ')' {
		return nil
	}
	s = s[1 : len(s)-1]
	var out []string
	depth, start := 0, -1
	inBar, inStr := false, false
	for i := 0; i < len(s); i++ {
		c := s[i]
		switch {
		case inBar:
			if c == '|' {
				inBar = false
			}
		case inStr:
			if c == '"' {
				inStr = false
			}
		case c == '|':
			inBar = true
			if start < 0 {
				start = i
			}
		case c == '"':
			inStr = true
			if start < 0 {
				start = i
			}
		case c == '(':
			if start < 0 {
				start = i
			}
			depth++
		case c == ')':
			depth--
		case c == ' ' || c == '\n' || c == '\t':
			if depth == 0 && start >= 0 {
				out = append(out, s[start:i])
				start = -1
			}
		default:
			if start < 0 {
				start = i
			}
		}
	}
	if start >= 0 {
		out = append(out, s[start:])
	}
	return out
}
