package symex

// Order-independence obligations (property C06, DESIGN.md 6 C06).
//
// For every `range` over a map in a function on the generation path one obligation
// "<func>/maprange#<loop ordinal>/order-independent" is generated, and for every function one obligation
// "<func>/effects#deterministic-sources". They are decided by an iteration-footprint separation rule over
// the typed AST (not by an SMT query): the iteration for key k may write only
//   (W1) variables declared in the body,
//   (W2) cells X[k] of a container X indexed by the loop key (delete(X, k) likewise),
//   (W3) objects reached through the range value or through objects created in the iteration
//        (owned by the key under the stated tree-shape assumption),
//   (W4) accumulators declared outside the loop that are updated commutatively and not read in the
//        body: a constant flag, a counter, or a slice that is sorted before its next use,
// and may not read, index with another key, alias or hand to a callee any container whose cells it writes.
// Early exits must be error/abort exits. Callee effects come from the callee's body when it is a small
// function of this repository (analysed under the classes of its actual arguments), otherwise from its
// `assigns` clause, otherwise from a table of read-only externals; anything else fails the obligation.
// A loop the rule cannot justify can be declared `loop N: order_assumed <reason>` in the contract file: it
// is then listed among the unchecked assumptions in the evidence instead of being counted as discharged.

import (
	"fmt"
	"go/ast"
	"go/token"
	"go/types"
	"sort"
	"strings"
)

type OrderResult struct {
	Name    string
	Func    string
	Kind    string // "maprange" or "sources"
	Pos     string
	OK      bool
	Assumed string // non-empty: not checked, taken from an order_assumed clause
	Class   string
	Reason  string
	Assumes []string
	// Excepted: for a loop with an order_except clause, what the rule could not establish about the listed
	// calls (assumed, reported as unchecked)
	Excepted map[string]any
}

const (
	cImm = iota
	cKey
	cFresh
	cOwned
	cShared
)

type ordEvent struct {
	kind  string // "idx" (index read/write of container), "whole" (container used whole), "alias"
	s     string
	roots []string // for "alias": the shared expressions the aliased value derives from
	site  string   // the call of the loop body's own code under which the event arose
	keyed bool
	pos   token.Pos
}

type ordFrame struct {
	info  *types.Info
	env   map[*types.Var]int
	names map[*types.Var]string   // callee parameter -> actual argument, in the naming of the loop's function
	roots map[*types.Var][]string // local holding a reference to shared state -> the shared expressions it derives from
	local func(v *types.Var) bool
	depth int
	fn    *types.Func
}

type ordAn struct {
	w          *World
	fset       *token.FileSet
	M          string
	keyed      map[string]bool
	events     []ordEvent
	fails      []string
	assumes    map[string]bool
	accs       map[*types.Var]string
	accLit     map[*types.Var]string
	accStmts   map[ast.Node]bool
	wroteOwn   bool
	stack      []*types.Func
	frames     []*ordFrame
	hasSortK   bool
	earlyExits []token.Pos       // breaks and constant returns out of the loop
	constRet   string            // the constant result tuple of the successful returns inside the loop
	constSet   map[string]string // container -> the one constant that iterations store into cells of it (any index)
	// of the loop under analysis
	site       string          // the call statement of the loop body (depth 0) being analysed
	except     map[string]bool // callees whose unestablished effects are assumed (order_except)
	excused    map[string][]string
	loopSig    *types.Signature
	loopBreaks map[*ast.BranchStmt]bool
	lateReads  []*ast.Ident
}

func (a *ordAn) fr() *ordFrame { return a.frames[len(a.frames)-1] }

func (a *ordAn) fail(pos token.Pos, format string, args ...any) {
	a.failAt(a.site, pos, format, args...)
}

func (a *ordAn) failAt(site string, pos token.Pos, format string, args ...any) {
	p := a.fset.Position(pos)
	msg := fmt.Sprintf("%s (%s:%d)", fmt.Sprintf(format, args...), baseFile(p.Filename), p.Line)
	if site != "" && a.except[site] {
		if a.excused == nil {
			a.excused = map[string][]string{}
		}
		a.excused[site] = append(a.excused[site], msg)
		return
	}
	a.fails = append(a.fails, msg)
}

// siteOf: the callee of the call that a simple statement of the loop body consists of.
func siteOf(s ast.Stmt) string {
	var e ast.Expr
	switch s := s.(type) {
	case *ast.ExprStmt:
		e = s.X
	case *ast.AssignStmt:
		if len(s.Rhs) == 1 {
			e = s.Rhs[0]
		}
	case *ast.DeferStmt:
		e = s.Call
	}
	call, ok := e.(*ast.CallExpr)
	if !ok {
		return ""
	}
	switch f := ast.Unparen(call.Fun).(type) {
	case *ast.Ident:
		return f.Name
	case *ast.SelectorExpr:
		return f.Sel.Name
	}
	return ""
}

func baseFile(f string) string {
	if i := strings.LastIndex(f, "/"); i >= 0 {
		return f[i+1:]
	}
	return f
}

// immutableType: values of the type cannot be used to change state that another iteration could
// observe (no references, or types that are immutable by convention once constructed).
func immutableType(t types.Type) bool {
	return immType(t, map[types.Type]bool{})
}

func immType(t types.Type, seen map[types.Type]bool) bool {
	if t == nil {
		return true
	}
	if seen[t] {
		return true
	}
	seen[t] = true
	s := t.String()
	for _, p := range []string{"go/types.", "go/ast.", "go/token.", "golang.org/x/tools/go/packages.", "context.Context", "github.com/rs/zerolog", "reflect.Type", "regexp.Regexp", "time.Duration"} {
		if strings.Contains(s, p) {
			return true
		}
	}
	switch u := t.Underlying().(type) {
	case *types.Basic:
		return u.Kind() != types.UnsafePointer
	case *types.Struct:
		for i := 0; i < u.NumFields(); i++ {
			if !immType(u.Field(i).Type(), seen) {
				return false
			}
		}
		return true
	case *types.Array:
		return immType(u.Elem(), seen)
	case *types.Interface:
		if nt, ok := types.Unalias(t).(*types.Named); ok && nt.Obj().Pkg() == nil && nt.Obj().Name() == "error" {
			return true
		}
		return false
	case *types.Signature:
		return false
	}
	return false
}

func worse(a, b int) int {
	if a > b {
		return a
	}
	return b
}

func (a *ordAn) varOf(id *ast.Ident) *types.Var {
	info := a.fr().info
	if o, ok := info.Uses[id].(*types.Var); ok {
		return o
	}
	if o, ok := info.Defs[id].(*types.Var); ok {
		return o
	}
	return nil
}

func (a *ordAn) classOfVar(v *types.Var) int {
	if c, ok := a.fr().env[v]; ok {
		return c
	}
	if immutableType(v.Type()) {
		return cImm
	}
	if a.fr().local(v) {
		return cFresh // declared in the iteration and not yet given a shared value
	}
	return cShared
}

// nameOf renders e in the naming of the loop's function (callee parameters replaced by the actuals).
func (a *ordAn) nameOf(e ast.Expr) string {
	switch e := ast.Unparen(e).(type) {
	case *ast.Ident:
		if v := a.varOf(e); v != nil {
			if s, ok := a.fr().names[v]; ok {
				return s
			}
			if a.fr().depth > 0 && a.fr().local(v) {
				return "?" + e.Name
			}
		}
		return e.Name
	case *ast.SelectorExpr:
		return a.nameOf(e.X) + "." + e.Sel.Name
	case *ast.IndexExpr:
		return a.nameOf(e.X) + "[" + a.nameOf(e.Index) + "]"
	case *ast.StarExpr:
		return a.nameOf(e.X)
	case *ast.UnaryExpr:
		if e.Op == token.AND {
			return a.nameOf(e.X)
		}
	case *ast.TypeAssertExpr:
		return a.nameOf(e.X)
	}
	return "?" + types.ExprString(e)
}

// rootsOf: the maximal sub-expressions of e that denote state shared by all iterations, in the naming of
// the loop's function ("?..." where no such name exists).
func (a *ordAn) rootsOf(e ast.Expr) []string {
	var out []string
	var walk func(e ast.Expr)
	walk = func(e ast.Expr) {
		if e == nil {
			return
		}
		e = ast.Unparen(e)
		info := a.fr().info
		if tv, ok := info.Types[e]; ok && (tv.IsType() || tv.Value != nil) {
			return
		}
		switch x := e.(type) {
		case *ast.Ident:
			if v := a.varOf(x); v != nil {
				if rs, ok := a.fr().roots[v]; ok {
					out = append(out, rs...)
					return
				}
				if !immutableType(v.Type()) && a.classOfVar(v) == cShared {
					out = append(out, a.nameOf(x))
				}
			}
		case *ast.SelectorExpr, *ast.IndexExpr, *ast.StarExpr:
			if immutableType(info.TypeOf(e)) {
				return
			}
			if a.classOf(e) == cShared {
				n := a.nameOf(e)
				if strings.Contains(n, "?") {
					// name the root through the locals it passes through
					switch y := x.(type) {
					case *ast.SelectorExpr:
						walk(y.X)
					case *ast.IndexExpr:
						walk(y.X)
					case *ast.StarExpr:
						walk(y.X)
					}
					return
				}
				out = append(out, n)
			}
		case *ast.CallExpr:
			if se, ok := ast.Unparen(x.Fun).(*ast.SelectorExpr); ok {
				if _, isSel := info.Selections[se]; isSel {
					walk(se.X)
				}
			}
			for _, ar := range x.Args {
				walk(ar)
			}
		case *ast.UnaryExpr:
			walk(x.X)
		case *ast.TypeAssertExpr:
			walk(x.X)
		case *ast.SliceExpr:
			walk(x.X)
		case *ast.CompositeLit:
			for _, el := range x.Elts {
				if kv, ok := el.(*ast.KeyValueExpr); ok {
					el = kv.Value
				}
				walk(el)
			}
		default:
			out = append(out, "?"+types.ExprString(e))
		}
	}
	walk(e)
	return out
}

func (a *ordAn) setRoots(v *types.Var, rs []string) {
	if a.fr().roots == nil {
		a.fr().roots = map[*types.Var][]string{}
	}
	a.fr().roots[v] = rs
}

func (a *ordAn) isKeyExpr(e ast.Expr) bool {
	if id, ok := ast.Unparen(e).(*ast.Ident); ok {
		if v := a.varOf(id); v != nil {
			return a.fr().env[v] == cKey
		}
	}
	return false
}

// classOf: the class of the objects that the value of e can reach.
func (a *ordAn) classOf(e ast.Expr) int {
	info := a.fr().info
	e = ast.Unparen(e)
	if id, ok := e.(*ast.Ident); ok {
		if v := a.varOf(id); v != nil {
			if c, ok := a.fr().env[v]; ok {
				return c
			}
		}
	}
	if tv, ok := info.Types[e]; ok && tv.Type != nil && (immutableType(tv.Type) || tv.IsType() || tv.Value != nil) {
		return cImm
	}
	switch e := e.(type) {
	case *ast.Ident:
		if v := a.varOf(e); v != nil {
			return a.classOfVar(v)
		}
		if _, ok := info.Uses[e].(*types.Nil); ok {
			return cImm
		}
		return cImm
	case *ast.SelectorExpr:
		if sel, ok := info.Selections[e]; ok {
			if sel.Kind() == types.FieldVal {
				return a.classOf(e.X)
			}
			return a.classOf(e.X) // method value
		}
		// qualified identifier: a package-level variable of another package
		if v, ok := info.Uses[e.Sel].(*types.Var); ok && !immutableType(v.Type()) {
			return cShared
		}
		return cImm
	case *ast.IndexExpr:
		c := a.classOf(e.X)
		if c == cShared && a.isKeyExpr(e.Index) {
			return cOwned
		}
		return c
	case *ast.StarExpr:
		return a.classOf(e.X)
	case *ast.SliceExpr:
		return a.classOf(e.X)
	case *ast.TypeAssertExpr:
		return a.classOf(e.X)
	case *ast.UnaryExpr:
		return a.classOf(e.X)
	case *ast.BinaryExpr:
		return cImm
	case *ast.BasicLit, *ast.FuncLit:
		return cFresh
	case *ast.CompositeLit:
		c := cFresh
		for _, el := range e.Elts {
			if kv, ok := el.(*ast.KeyValueExpr); ok {
				el = kv.Value
			}
			c = worse(c, a.classOf(el))
		}
		return c
	case *ast.CallExpr:
		if tv, ok := info.Types[e.Fun]; ok && tv.IsType() {
			if len(e.Args) == 1 {
				return a.classOf(e.Args[0])
			}
			return cFresh
		}
		if id, ok := ast.Unparen(e.Fun).(*ast.Ident); ok {
			if _, isB := info.Uses[id].(*types.Builtin); isB {
				switch id.Name {
				case "new", "make":
					return cFresh
				case "append":
					c := cFresh
					for _, ar := range e.Args {
						c = worse(c, a.classOf(ar))
					}
					return c
				}
				return cImm
			}
		}
		c := cFresh
		if fn := a.calleeOf(e); fn != nil {
			n := fullName(fn)
			for _, p := range freshResults {
				if n == p || strings.HasSuffix(p, ".") && strings.HasPrefix(n, p) {
					if n != "reflect.ValueOf" {
						return cFresh
					}
				}
			}
		}
		if se, ok := ast.Unparen(e.Fun).(*ast.SelectorExpr); ok {
			if _, isSel := info.Selections[se]; isSel {
				c = worse(c, a.classOf(se.X))
			}
		}
		for _, ar := range e.Args {
			c = worse(c, a.classOf(ar))
		}
		if c == cImm || c == cKey {
			c = cFresh
		}
		a.assumes["a function that receives no reference to state shared between iterations returns an object that is not shared between iterations"] = true
		return c
	}
	return cShared
}

// recvWriters: external methods that write (at most) their receiver and, for the listed ones, the object
// their first argument points to; their other arguments are only read.
var recvWriters = []string{"reflect.Value.Set", "bytes.Buffer.", "strings.Builder.", "text/template.Template.", "html/template.Template."}

// freshResults: externals whose result is a new object whatever they are given.
var freshResults = []string{"text/template.New", "text/template.Template.Funcs", "text/template.Template.Parse", "text/template.Template.New", "text/template.Template.Option", "reflect.ValueOf", "reflect.New", "fmt.", "errors.", "strings.", "strconv."}

var readOnlyExternal = []string{"reflect.Value.", "fmt.", "errors.", "strings.", "strconv.", "path/filepath.", "path.", "regexp.", "unicode.", "unicode/utf8.", "bytes.Equal", "bytes.Contains", "go/types.", "go/ast.", "go/token.", "reflect.TypeOf", "reflect.ValueOf", "reflect.DeepEqual", "github.com/vektra/mockery/v3/internal/stackerr."}

func fullName(f *types.Func) string {
	if f == nil {
		return ""
	}
	sig := f.Type().(*types.Signature)
	if r := sig.Recv(); r != nil {
		t := r.Type()
		if p, ok := t.(*types.Pointer); ok {
			t = p.Elem()
		}
		if nt, ok := types.Unalias(t).(*types.Named); ok && nt.Obj().Pkg() != nil {
			return nt.Obj().Pkg().Path() + "." + nt.Obj().Name() + "." + f.Name()
		}
	}
	if f.Pkg() != nil {
		return f.Pkg().Path() + "." + f.Name()
	}
	return f.Name()
}

func (a *ordAn) calleeOf(call *ast.CallExpr) *types.Func {
	info := a.fr().info
	switch f := ast.Unparen(call.Fun).(type) {
	case *ast.Ident:
		fn, _ := info.Uses[f].(*types.Func)
		return fn
	case *ast.SelectorExpr:
		fn, _ := info.Uses[f.Sel].(*types.Func)
		return fn
	case *ast.IndexExpr: // generic instantiation
		if id, ok := f.X.(*ast.Ident); ok {
			fn, _ := info.Uses[id].(*types.Func)
			return fn
		}
	}
	return nil
}

func (a *ordAn) isLogging(call *ast.CallExpr) bool {
	info := a.fr().info
	if se, ok := ast.Unparen(call.Fun).(*ast.SelectorExpr); ok {
		if sel, ok := info.Selections[se]; ok && isLogType(sel.Recv()) {
			return true
		}
		if fn, ok := info.Uses[se.Sel].(*types.Func); ok && (strings.HasPrefix(pkgPathOf(fn), "github.com/rs/zerolog") || pkgPathOf(fn) == "github.com/vektra/mockery/v3/internal/logging") {
			return true
		}
	}
	return false
}

// ---- statements -------------------------------------------------------------------------------

func (a *ordAn) stmts(list []ast.Stmt) {
	for _, s := range list {
		a.stmt(s)
	}
}

func (a *ordAn) stmt(s ast.Stmt) {
	if a.fr().depth == 0 && a.site == "" {
		if n := siteOf(s); n != "" {
			a.site = n
			defer func() { a.site = "" }()
		}
	}
	switch s := s.(type) {
	case nil:
	case *ast.BlockStmt:
		a.stmts(s.List)
	case *ast.ExprStmt:
		a.expr(s.X)
	case *ast.AssignStmt:
		a.assign(s)
	case *ast.IncDecStmt:
		a.write(s.X, nil, s, s.Tok)
	case *ast.DeclStmt:
		if gd, ok := s.Decl.(*ast.GenDecl); ok {
			for _, sp := range gd.Specs {
				if vs, ok := sp.(*ast.ValueSpec); ok {
					for i, n := range vs.Names {
						var rhs ast.Expr
						if i < len(vs.Values) {
							rhs = vs.Values[i]
							a.expr(rhs)
						}
						if v := a.varOf(n); v != nil && rhs != nil {
							a.fr().env[v] = a.classOf(rhs)
						}
					}
				}
			}
		}
	case *ast.IfStmt:
		a.stmt(s.Init)
		a.expr(s.Cond)
		a.stmt(s.Body)
		a.stmt(s.Else)
	case *ast.ForStmt:
		a.stmt(s.Init)
		if s.Cond != nil {
			a.expr(s.Cond)
		}
		a.stmt(s.Post)
		a.stmt(s.Body)
	case *ast.RangeStmt:
		a.expr(s.X)
		c := a.classOf(s.X)
		for _, kv := range []ast.Expr{s.Key, s.Value} {
			if id, ok := kv.(*ast.Ident); ok && id.Name != "_" {
				if v := a.varOf(id); v != nil {
					if immutableType(v.Type()) {
						a.fr().env[v] = cImm
					} else {
						a.fr().env[v] = c
						if c == cShared {
							a.setRoots(v, a.rootsOf(s.X))
						}
					}
				}
			}
		}
		a.stmt(s.Body)
	case *ast.SwitchStmt:
		a.stmt(s.Init)
		if s.Tag != nil {
			a.expr(s.Tag)
		}
		a.stmt(s.Body)
	case *ast.TypeSwitchStmt:
		a.stmt(s.Init)
		// x := y.(type): the per-clause variables take the class of y
		var src ast.Expr
		switch as := s.Assign.(type) {
		case *ast.AssignStmt:
			if ta, ok := as.Rhs[0].(*ast.TypeAssertExpr); ok {
				src = ta.X
			}
		case *ast.ExprStmt:
			if ta, ok := as.X.(*ast.TypeAssertExpr); ok {
				src = ta.X
			}
		}
		if src != nil {
			a.expr(src)
			c := a.classOf(src)
			for _, cc := range s.Body.List {
				if v, ok := a.fr().info.Implicits[cc].(*types.Var); ok {
					if immutableType(v.Type()) {
						a.fr().env[v] = cImm
					} else {
						a.fr().env[v] = c
						if c == cShared {
							a.setRoots(v, a.rootsOf(src))
						}
					}
				}
			}
		}
		a.stmt(s.Body)
	case *ast.CaseClause:
		for _, e := range s.List {
			a.expr(e)
		}
		a.stmts(s.Body)
	case *ast.LabeledStmt:
		a.stmt(s.Stmt)
	case *ast.ReturnStmt:
		for _, r := range s.Results {
			a.expr(r)
		}
		if a.fr().depth == 0 {
			a.checkAbort(s)
		}
	case *ast.BranchStmt:
		if a.fr().depth == 0 && s.Tok == token.GOTO {
			a.fail(s.Pos(), "goto leaves the loop: which iteration does so first depends on the iteration order")
		}
		if a.fr().depth == 0 && s.Tok == token.BREAK && a.breaksLoop(s) {
			a.earlyExits = append(a.earlyExits, s.Pos()) // judged at the end: harmless when the loop's only effects are constant flags
		}
	case *ast.GoStmt, *ast.SelectStmt, *ast.SendStmt:
		a.fail(s.Pos(), "concurrency statement inside the iteration")
	case *ast.DeferStmt:
		a.expr(s.Call)
	case *ast.EmptyStmt:
	default:
		a.fail(s.Pos(), "statement of a kind the rule does not cover: %T", s)
	}
}

func (a *ordAn) breaksLoop(s *ast.BranchStmt) bool { return a.loopBreaks[s] }

func (a *ordAn) checkAbort(s *ast.ReturnStmt) {
	// `return <constants>` (a search: "is there a key such that ..."): the same result whichever key
	// triggers it; harmless when the loop has no effects (judged at the end)
	if len(s.Results) > 0 {
		var parts []string
		all := true
		for _, r := range s.Results {
			t, ok := isConstLit(r)
			if !ok {
				all = false
				break
			}
			parts = append(parts, t)
		}
		if all {
			txt := strings.Join(parts, ",")
			if a.constRet == "" || a.constRet == txt {
				a.constRet = txt
				a.earlyExits = append(a.earlyExits, s.Pos())
				return
			}
			a.fail(s.Pos(), "the loop returns different constants from different iterations")
			return
		}
	}
	sig := a.loopSig
	n := sig.Results().Len()
	if n == 0 {
		a.fail(s.Pos(), "return from inside the iteration of a function without an error result")
		return
	}
	last := sig.Results().At(n - 1).Type()
	if nt, ok := types.Unalias(last).(*types.Named); !ok || nt.Obj().Name() != "error" || nt.Obj().Pkg() != nil {
		a.fail(s.Pos(), "return from inside the iteration of a function whose last result is not an error")
		return
	}
	if len(s.Results) == 0 {
		a.fail(s.Pos(), "bare return inside the iteration")
		return
	}
	if id, ok := ast.Unparen(s.Results[len(s.Results)-1]).(*ast.Ident); ok && id.Name == "nil" {
		a.fail(s.Pos(), "successful return from inside the iteration: the result depends on which key is visited first")
	}
}

func (a *ordAn) assign(s *ast.AssignStmt) {
	for _, r := range s.Rhs {
		a.expr(r)
	}
	for i, l := range s.Lhs {
		var rhs ast.Expr
		if len(s.Rhs) == len(s.Lhs) {
			rhs = s.Rhs[i]
		} else if len(s.Rhs) == 1 {
			rhs = s.Rhs[0]
		}
		a.write(l, rhs, s, s.Tok)
	}
}

// write: one assignment target.
func (a *ordAn) write(lhs ast.Expr, rhs ast.Expr, st ast.Stmt, tok token.Token) {
	lhs = ast.Unparen(lhs)
	fr := a.fr()
	if id, ok := lhs.(*ast.Ident); ok {
		if id.Name == "_" {
			return
		}
		v := a.varOf(id)
		if v == nil {
			return
		}
		if fr.local(v) {
			if rhs != nil {
				c := a.classOf(rhs)
				if tok != token.DEFINE && tok != token.ASSIGN {
					c = worse(c, a.classOfVar(v))
				}
				if immutableType(v.Type()) && fr.env[v] != cKey {
					c = cImm
				}
				if tv, ok := fr.info.Types[rhs]; ok && tv.Type != nil {
					if tup, isTuple := tv.Type.(*types.Tuple); isTuple && tup.Len() > 1 && immutableType(v.Type()) {
						c = cImm
					}
				}
				if idr, ok := ast.Unparen(rhs).(*ast.Ident); ok && a.isKeyExpr(idr) {
					c = cKey
				}
				fr.env[v] = c
				if c == cShared && !immutableType(v.Type()) {
					rs := a.rootsOf(rhs)
					if fr.roots == nil {
						fr.roots = map[*types.Var][]string{}
					}
					fr.roots[v] = rs
					a.events = append(a.events, ordEvent{kind: "alias", s: types.ExprString(rhs), roots: rs, pos: st.Pos(), site: a.site})
				}
			}
			return
		}
		// a variable declared outside the iteration
		if fr.depth > 0 {
			a.fail(st.Pos(), "a callee assigns the package-level variable %s", id.Name)
			return
		}
		a.accumulate(v, id, rhs, st, tok)
		return
	}
	// a heap location: find the root and whether the path passes through a cell indexed by the key
	root, derefs, keyedAt := a.pathOf(lhs)
	if root == nil {
		a.fail(st.Pos(), "write to %s: target not understood", types.ExprString(lhs))
		return
	}
	v := a.varOf(root)
	if v != nil && fr.local(v) && !derefs {
		return // a field or element of a local value
	}
	c := cShared
	if v != nil {
		c = a.classOfVar(v)
	}
	switch {
	case c == cFresh:
		return
	case c == cOwned:
		a.wroteOwn = true
		return
	case keyedAt != nil:
		cont := a.nameOf(keyedAt.X)
		if strings.Contains(cont, "?") {
			a.fail(st.Pos(), "write to %s through a container that cannot be named in the loop's function", types.ExprString(lhs))
			return
		}
		a.keyed[cont] = true
		if keyedAt != lhs {
			a.wroteOwn = true
		}
		return
	}
	// storing one and the same constant into cells of a map is idempotent and commutative whatever the
	// index is (building a set), provided the iterations do not read the map
	if ix, ok := lhs.(*ast.IndexExpr); ok && tok == token.ASSIGN && rhs != nil {
		if t := fr.info.TypeOf(ix.X); t != nil {
			if _, isMap := t.Underlying().(*types.Map); isMap {
				if lit, ok := constText(rhs); ok {
					cont := a.nameOf(ix.X)
					if !strings.Contains(cont, "?") {
						if a.constSet == nil {
							a.constSet = map[string]string{}
						}
						if prev, seen := a.constSet[cont]; !seen || prev == lit {
							a.constSet[cont] = lit
							a.expr(ix.Index)
							return
						}
					}
				}
			}
		}
	}
	a.fail(st.Pos(), "write to %s: state shared by all iterations, not a cell indexed by the loop key", types.ExprString(lhs))
}

// constText: a constant expression (literal, true/false/nil, struct{}{}), as text.
func constText(e ast.Expr) (string, bool) {
	if s, ok := isConstLit(e); ok {
		return s, true
	}
	if cl, ok := ast.Unparen(e).(*ast.CompositeLit); ok && len(cl.Elts) == 0 {
		if st, ok := cl.Type.(*ast.StructType); ok && (st.Fields == nil || len(st.Fields.List) == 0) {
			return "struct{}{}", true
		}
	}
	return "", false
}

// pathOf: root identifier of an addressable expression, whether the path dereferences a pointer / indexes
// a map or slice, and the outermost index expression whose index is the loop key and whose container
// is not owned.
func (a *ordAn) pathOf(e ast.Expr) (root *ast.Ident, derefs bool, keyedAt *ast.IndexExpr) {
	info := a.fr().info
	for {
		switch x := ast.Unparen(e).(type) {
		case *ast.Ident:
			return x, derefs, keyedAt
		case *ast.SelectorExpr:
			if sel, ok := info.Selections[x]; ok {
				if sel.Indirect() {
					derefs = true
				} else if _, isPtr := info.TypeOf(x.X).Underlying().(*types.Pointer); isPtr {
					derefs = true
				}
				e = x.X
				continue
			}
			// pkg.Var
			return x.Sel, true, keyedAt
		case *ast.IndexExpr:
			if t := info.TypeOf(x.X); t != nil {
				switch t.Underlying().(type) {
				case *types.Map, *types.Slice, *types.Pointer:
					derefs = true
				}
			}
			if a.isKeyExpr(x.Index) {
				if t := info.TypeOf(x.X); t != nil {
					if _, isMap := t.Underlying().(*types.Map); isMap {
						keyedAt = x
					}
				}
			}
			e = x.X
		case *ast.StarExpr:
			derefs = true
			e = x.X
		case *ast.TypeAssertExpr:
			e = x.X
		case *ast.CallExpr:
			return nil, true, nil
		default:
			return nil, true, nil
		}
	}
}

func isConstLit(e ast.Expr) (string, bool) {
	switch x := ast.Unparen(e).(type) {
	case *ast.BasicLit:
		return x.Value, true
	case *ast.Ident:
		if x.Name == "true" || x.Name == "false" || x.Name == "nil" {
			return x.Name, true
		}
	}
	return "", false
}

func (a *ordAn) accumulate(v *types.Var, id *ast.Ident, rhs ast.Expr, st ast.Stmt, tok token.Token) {
	kind := ""
	switch tok {
	case token.INC, token.DEC:
		kind = "counter"
	case token.ADD_ASSIGN, token.SUB_ASSIGN:
		if b, ok := v.Type().Underlying().(*types.Basic); ok && b.Info()&types.IsNumeric != 0 {
			kind = "counter"
		}
	case token.OR_ASSIGN, token.AND_ASSIGN:
		kind = "bits"
	case token.ASSIGN:
		if lit, ok := isConstLit(rhs); ok {
			kind = "const"
			if prev, seen := a.accLit[v]; seen && prev != lit {
				a.fail(st.Pos(), "%s is assigned different constants in the iteration", id.Name)
			}
			a.accLit[v] = lit
		} else if call, ok := ast.Unparen(rhs).(*ast.CallExpr); ok {
			if f, ok := ast.Unparen(call.Fun).(*ast.Ident); ok && f.Name == "append" && len(call.Args) > 0 {
				if a0, ok := ast.Unparen(call.Args[0]).(*ast.Ident); ok && a.varOf(a0) == v {
					kind = "append"
					a.accStmts[a0] = true
				}
			}
		} else if be, ok := ast.Unparen(rhs).(*ast.BinaryExpr); ok && (be.Op == token.LOR || be.Op == token.LAND) {
			if a0, ok := ast.Unparen(be.X).(*ast.Ident); ok && a.varOf(a0) == v {
				kind = "bits"
				a.accStmts[a0] = true
			}
		}
	}
	if kind == "" {
		a.fail(st.Pos(), "assignment to %s, declared outside the loop, is not a commutative update (constant flag, counter, or append to a slice that is sorted afterwards)", id.Name)
		return
	}
	if prev, ok := a.accs[v]; ok && prev != kind {
		a.fail(st.Pos(), "%s is updated in two different ways in the iteration", id.Name)
	}
	a.accs[v] = kind
	a.accStmts[id] = true
}

// ---- expressions ------------------------------------------------------------------------------

func (a *ordAn) expr(e ast.Expr) {
	if e == nil {
		return
	}
	info := a.fr().info
	switch x := e.(type) {
	case *ast.ParenExpr:
		a.expr(x.X)
	case *ast.Ident:
		if v := a.varOf(x); v != nil && a.fr().depth == 0 && !a.accStmts[x] {
			if _, isAcc := a.accs[v]; isAcc {
				a.fail(x.Pos(), "accumulator %s is read inside the iteration", x.Name)
			}
			a.lateReads = append(a.lateReads, x)
		}
	case *ast.SelectorExpr:
		if _, ok := info.Selections[x]; ok {
			a.expr(x.X)
		}
	case *ast.IndexExpr:
		if t := info.TypeOf(x.X); t != nil {
			if _, isSig := t.Underlying().(*types.Signature); isSig {
				a.expr(x.X)
				return
			}
		}
		a.events = append(a.events, ordEvent{kind: "idx", s: a.nameOf(x.X), keyed: a.isKeyExpr(x.Index), pos: x.Pos(), site: a.site})
		a.exprNoWhole(x.X)
		a.expr(x.Index)
	case *ast.StarExpr:
		a.expr(x.X)
	case *ast.UnaryExpr:
		a.expr(x.X)
	case *ast.BinaryExpr:
		a.expr(x.X)
		a.expr(x.Y)
	case *ast.TypeAssertExpr:
		a.expr(x.X)
	case *ast.SliceExpr:
		a.expr(x.X)
		a.expr(x.Low)
		a.expr(x.High)
		a.expr(x.Max)
	case *ast.KeyValueExpr:
		a.expr(x.Value)
	case *ast.CompositeLit:
		for _, el := range x.Elts {
			a.expr(el)
		}
	case *ast.FuncLit:
		a.stmt(x.Body)
	case *ast.CallExpr:
		a.call(x)
	case *ast.BasicLit:
	}
}

// exprNoWhole: the container of an index expression is not a use of the container as a whole.
func (a *ordAn) exprNoWhole(e ast.Expr) {
	switch x := ast.Unparen(e).(type) {
	case *ast.Ident:
	case *ast.SelectorExpr:
		if _, ok := a.fr().info.Selections[x]; ok {
			a.exprNoWhole(x.X)
		}
	default:
		a.expr(e)
	}
}

func (a *ordAn) whole(e ast.Expr) {
	if immutableType(a.fr().info.TypeOf(e)) {
		return
	}
	if a.classOf(e) != cShared {
		return
	}
	for _, r := range a.rootsOf(e) {
		a.events = append(a.events, ordEvent{kind: "whole", s: r, pos: e.Pos(), site: a.site})
	}
}

func (a *ordAn) call(call *ast.CallExpr) {
	info := a.fr().info
	if a.isLogging(call) {
		return
	}
	if tv, ok := info.Types[call.Fun]; ok && tv.IsType() {
		for _, ar := range call.Args {
			a.expr(ar)
		}
		return
	}
	if id, ok := ast.Unparen(call.Fun).(*ast.Ident); ok {
		if _, isB := info.Uses[id].(*types.Builtin); isB {
			switch id.Name {
			case "delete":
				if len(call.Args) == 2 {
					a.expr(call.Args[1])
					ix := &ast.IndexExpr{X: call.Args[0], Index: call.Args[1]}
					// classify like a write to X[key]
					c := a.classOf(call.Args[0])
					switch {
					case c == cFresh:
					case c == cOwned:
						a.wroteOwn = true
					case a.isKeyExpr(call.Args[1]):
						a.keyed[a.nameOf(call.Args[0])] = true
					default:
						a.fail(call.Pos(), "delete(%s) removes a cell that is not indexed by the loop key", types.ExprString(ix))
					}
					a.exprNoWhole(call.Args[0])
				}
				return
			case "len", "cap":
				for _, ar := range call.Args {
					a.whole(ar)
					a.expr(ar)
				}
				return
			case "copy":
				if len(call.Args) == 2 {
					if c := a.classOf(call.Args[0]); c == cShared {
						a.fail(call.Pos(), "copy into shared state")
					} else if c == cOwned {
						a.wroteOwn = true
					}
				}
			case "panic":
			}
			for _, ar := range call.Args {
				a.expr(ar)
			}
			return
		}
	}
	fn := a.calleeOf(call)
	var actuals []ast.Expr
	var recv ast.Expr
	if se, ok := ast.Unparen(call.Fun).(*ast.SelectorExpr); ok {
		if _, isSel := info.Selections[se]; isSel {
			recv = se.X
		}
	}
	if recv != nil {
		actuals = append(actuals, recv)
	}
	actuals = append(actuals, call.Args...)
	for _, ar := range call.Args {
		a.expr(ar)
	}
	if recv != nil {
		a.exprNoWhole(recv)
	}
	if fn == nil {
		// a call through a function value
		a.expr(call.Fun)
		for _, ar := range actuals {
			if !immutableType(info.TypeOf(ar)) && a.classOf(ar) == cShared {
				a.fail(call.Pos(), "call through a function value with a reference to shared state")
				return
			}
		}
		if a.classOf(call.Fun) == cShared {
			a.fail(call.Pos(), "call of a function value declared outside the iteration (its effects are unknown)")
		}
		return
	}
	var shared []ast.Expr
	anyOwned := false
	for _, ar := range actuals {
		if immutableType(info.TypeOf(ar)) {
			continue
		}
		switch a.classOf(ar) {
		case cShared:
			shared = append(shared, ar)
		case cOwned:
			anyOwned = true
		}
	}
	name := fullName(fn)
	fi := a.w.Funcs[fn.Origin()]
	if fi != nil && a.coveredByOuterActivation(fn, recv, call) {
		return
	}
	if fi != nil && fi.Body() != nil && a.canDescend(fn, fi) {
		a.descend(fn, fi, recv, call)
		return
	}
	if len(shared) == 0 {
		// effects are confined to what the arguments reach (owned or fresh objects) and package-level
		// state of the callee's package
		if anyOwned {
			a.wroteOwn = true
		}
		a.assumes["callees that are not analysed (large, recursive or external) do not write package-level variables"] = true
		return
	}
	// shared references are handed to a callee whose body is not analysed
	if c := a.w.ByFunc[fn.Origin()]; c != nil && (c.Pure || c.HasAssign) {
		if c.Pure || (len(c.Assigns) == 0) {
			for _, ar := range shared {
				a.whole(ar)
			}
			if anyOwned && !c.Pure && len(c.Assigns) > 0 {
				a.wroteOwn = true
			}
			return
		}
		// which parameters do the assigned locations hang off?
		sig := fn.Type().(*types.Signature)
		pnames := map[string]ast.Expr{}
		if sig.Recv() != nil && recv != nil {
			pnames[sig.Recv().Name()] = recv
		}
		for i := 0; i < sig.Params().Len() && i < len(call.Args); i++ {
			pnames[sig.Params().At(i).Name()] = call.Args[i]
		}
		for _, loc := range c.Assigns {
			r := specRoot(loc)
			act, ok := pnames[r]
			if !ok {
				a.fail(call.Pos(), "%s assigns %s, which is not reached from a parameter", name, loc.String())
				continue
			}
			if immutableType(info.TypeOf(act)) {
				continue
			}
			switch a.classOf(act) {
			case cShared:
				a.fail(call.Pos(), "%s assigns %s, reached from %s: state shared by all iterations", name, loc.String(), types.ExprString(act))
			case cOwned:
				a.wroteOwn = true
			}
		}
		for _, ar := range shared {
			a.whole(ar)
		}
		return
	}
	for _, p := range recvWriters {
		if strings.HasPrefix(name, p) && recv != nil {
			written := []ast.Expr{recv}
			if strings.Contains(p, "template.Template") && strings.HasSuffix(name, ".Execute") && len(call.Args) > 0 {
				written = append(written, call.Args[0])
				a.assumes["executing a text/template does not change the data it is given"] = true
			}
			for _, wr := range written {
				if immutableType(info.TypeOf(wr)) {
					continue
				}
				switch a.classOf(wr) {
				case cShared:
					a.fail(call.Pos(), "%s writes %s: state shared by all iterations", name, types.ExprString(wr))
				case cOwned:
					a.wroteOwn = true
				}
			}
			for _, ar := range shared {
				isW := false
				for _, wr := range written {
					if wr == ar {
						isW = true
					}
				}
				if !isW {
					a.whole(ar)
				}
			}
			return
		}
	}
	for _, p := range readOnlyExternal {
		if strings.HasPrefix(name, p) {
			for _, ar := range shared {
				a.whole(ar)
			}
			return
		}
	}
	a.fail(call.Pos(), "%s receives a reference to state shared by all iterations (%s) and nothing bounds what it writes", name, types.ExprString(shared[0]))
}

func specRoot(e *SpecExpr) string {
	for e != nil {
		switch e.Kind {
		case "ident":
			return e.Name
		case "field", "index", "unary", "old", "slice":
			if len(e.Args) == 0 {
				return ""
			}
			e = e.Args[0]
		default:
			return ""
		}
	}
	return ""
}

// coveredByOuterActivation: a recursive call whose arguments are of classes no worse than those of the
// activation already under analysis adds no effect that the analysis of that activation does not already
// account for (the rule is closed under the recursion).
func (a *ordAn) coveredByOuterActivation(fn *types.Func, recv ast.Expr, call *ast.CallExpr) bool {
	var of *ordFrame
	for _, f := range a.frames {
		if f.fn != nil && f.fn.Origin() == fn.Origin() {
			of = f
		}
	}
	if of == nil {
		return false
	}
	osig := fn.Origin().Type().(*types.Signature)
	le := func(act ast.Expr, p *types.Var) bool {
		if immutableType(a.fr().info.TypeOf(act)) {
			return true
		}
		pc, ok := of.env[p]
		if !ok {
			pc = cShared
		}
		return a.classOf(act) <= pc
	}
	if osig.Recv() != nil && recv != nil && !le(recv, osig.Recv()) {
		return false
	}
	for i := 0; i < osig.Params().Len() && i < len(call.Args); i++ {
		if !le(call.Args[i], osig.Params().At(i)) {
			return false
		}
	}
	return true
}

func (a *ordAn) canDescend(fn *types.Func, fi *FuncInfo) bool {
	if a.fr().depth >= 3 {
		return false
	}
	for _, s := range a.stack {
		if s == fn.Origin() {
			return false
		}
	}
	n := 0
	ast.Inspect(fi.Body(), func(nd ast.Node) bool {
		if _, ok := nd.(ast.Stmt); ok {
			n++
		}
		return true
	})
	return n <= 60
}

func (a *ordAn) descend(fn *types.Func, fi *FuncInfo, recv ast.Expr, call *ast.CallExpr) {
	caller := a.fr()
	sig := fn.Type().(*types.Signature)
	body := fi.Body()
	nf := &ordFrame{info: fi.Pkg.TypesInfo, env: map[*types.Var]int{}, names: map[*types.Var]string{}, depth: caller.depth + 1, fn: fn}
	nf.local = func(v *types.Var) bool {
		return v.Pos() >= fi.Decl.Pos() && v.Pos() <= fi.Decl.End()
	}
	bind := func(p *types.Var, act ast.Expr) {
		if p == nil || p.Name() == "" || p.Name() == "_" {
			return
		}
		// the declared parameter object of the (possibly generic) origin
		if a.isKeyExpr(act) {
			nf.env[p] = cKey
		} else if immutableType(caller.info.TypeOf(act)) {
			nf.env[p] = cImm
		} else {
			nf.env[p] = a.classOf(act)
			if nf.env[p] == cShared {
				if nf.roots == nil {
					nf.roots = map[*types.Var][]string{}
				}
				nf.roots[p] = a.rootsOf(act)
			}
		}
		nf.names[p] = a.nameOf(act)
	}
	osig := fn.Origin().Type().(*types.Signature)
	if osig.Recv() != nil && recv != nil {
		bind(osig.Recv(), recv)
	}
	for i := 0; i < osig.Params().Len(); i++ {
		p := osig.Params().At(i)
		if sig.Variadic() && i == osig.Params().Len()-1 {
			c := cFresh
			for j := i; j < len(call.Args); j++ {
				c = worse(c, a.classOf(call.Args[j]))
			}
			if call.Ellipsis.IsValid() && len(call.Args) > i {
				c = a.classOf(call.Args[i])
			}
			nf.env[p] = c
			continue
		}
		if i < len(call.Args) {
			bind(p, call.Args[i])
		}
	}
	a.frames = append(a.frames, nf)
	a.stack = append(a.stack, fn.Origin())
	a.stmt(body)
	a.stack = a.stack[:len(a.stack)-1]
	a.frames = a.frames[:len(a.frames)-1]
}

// ---- driver -----------------------------------------------------------------------------------

func (w *World) OrderCheck(inScope func(fi *FuncInfo) bool) []*OrderResult {
	var out []*OrderResult
	var fis []*FuncInfo
	for _, fi := range w.Funcs {
		if fi.Decl != nil && inScope(fi) {
			fis = append(fis, fi)
		}
	}
	sort.Slice(fis, func(i, j int) bool { return fis[i].Name < fis[j].Name })
	for _, fi := range fis {
		out = append(out, w.sourcesOf(fi))
		out = append(out, w.mapRangesOf(fi)...)
	}
	return out
}

var nondetCallees = []string{"time.Now", "time.Since", "time.Until", "time.Tick", "time.After", "time.NewTimer", "time.NewTicker", "math/rand.", "math/rand/v2.", "crypto/rand.", "os.Getpid", "os.Getppid", "os.Hostname", "os.MkdirTemp", "os.CreateTemp", "io/ioutil.TempFile", "io/ioutil.TempDir",
	"reflect.Value.MapKeys", "reflect.Value.MapRange", "reflect.Value.Pointer", "reflect.Value.UnsafePointer", "reflect.Value.UnsafeAddr", "maps.Keys", "maps.Values", "maps.All", "golang.org/x/exp/maps.Keys", "golang.org/x/exp/maps.Values", "sync.Map.Range", "runtime.NumGoroutine", "runtime.Stack", "runtime.Callers", "github.com/google/uuid.", "golang.org/x/sync/errgroup.Group.Go", "golang.org/x/sync/errgroup.Group.TryGo", "sync.WaitGroup.Go", "os.Getuid", "os.Getgid", "os.Geteuid"}

// sourcesOf: the function contains no source of run-to-run variation other than map iteration.
func (w *World) sourcesOf(fi *FuncInfo) *OrderResult {
	info := fi.Pkg.TypesInfo
	res := &OrderResult{Name: fi.Name + "/effects#deterministic-sources", Func: fi.Name, Kind: "sources", Pos: w.Fset.Position(fi.Decl.Pos()).String(), OK: true, Class: "no clock, random, process-identity, temporary-name, unordered-collection or scheduling source"}
	var why []string
	bad := func(pos token.Pos, s string) {
		p := w.Fset.Position(pos)
		why = append(why, fmt.Sprintf("%s (%s:%d)", s, baseFile(p.Filename), p.Line))
	}
	// a clock value that only ever reaches log statements is not a source of variation in the output
	isLogCall := func(c *ast.CallExpr) bool {
		if se, ok := ast.Unparen(c.Fun).(*ast.SelectorExpr); ok {
			if sel, ok := info.Selections[se]; ok && isLogType(sel.Recv()) {
				return true
			}
			if fn, ok := info.Uses[se.Sel].(*types.Func); ok && (strings.HasPrefix(pkgPathOf(fn), "github.com/rs/zerolog") || pkgPathOf(fn) == "github.com/vektra/mockery/v3/internal/logging") {
				return true
			}
		}
		return false
	}
	var stack []ast.Node
	underLog := func() bool {
		for _, a := range stack {
			if c, ok := a.(*ast.CallExpr); ok && isLogCall(c) {
				return true
			}
		}
		return false
	}
	// uses of each local, with whether the use sits inside a log statement
	usesOutsideLog := map[*types.Var]bool{}
	ast.Inspect(fi.Decl.Body, func(n ast.Node) bool {
		if n == nil {
			stack = stack[:len(stack)-1]
			return true
		}
		if id, ok := n.(*ast.Ident); ok {
			if v, ok := info.Uses[id].(*types.Var); ok && !underLog() {
				// time.Since(v) / v.Sub(..) whose own value reaches only a log statement is judged at that call
				usesOutsideLog[v] = true
			}
		}
		stack = append(stack, n)
		return true
	})
	stack = nil
	clockOnlyLogged := func(n *ast.CallExpr) bool {
		if underLog() {
			return true
		}
		// v := time.Now() with every use of v inside a log statement
		if len(stack) > 0 {
			if as, ok := stack[len(stack)-1].(*ast.AssignStmt); ok && as.Tok == token.DEFINE && len(as.Lhs) == 1 && len(as.Rhs) == 1 && as.Rhs[0] == n {
				if id, ok := as.Lhs[0].(*ast.Ident); ok {
					if v, ok := info.Defs[id].(*types.Var); ok && !usesOutsideLog[v] {
						return true
					}
				}
			}
		}
		return false
	}
	ast.Inspect(fi.Decl.Body, func(n ast.Node) bool {
		if n == nil {
			stack = stack[:len(stack)-1]
			return true
		}
		defer func() { stack = append(stack, n) }()
		switch n := n.(type) {
		case *ast.GoStmt:
			bad(n.Pos(), "go statement")
		case *ast.SelectStmt:
			if len(n.Body.List) > 1 {
				bad(n.Pos(), "select with more than one case")
			}
		case *ast.RangeStmt:
			if t := info.TypeOf(n.X); t != nil {
				if _, ok := t.Underlying().(*types.Chan); ok {
					bad(n.Pos(), "range over a channel")
				}
			}
		case *ast.CallExpr:
			var fn *types.Func
			switch f := ast.Unparen(n.Fun).(type) {
			case *ast.Ident:
				fn, _ = info.Uses[f].(*types.Func)
			case *ast.SelectorExpr:
				fn, _ = info.Uses[f.Sel].(*types.Func)
			}
			if fn != nil {
				name := fullName(fn)
				for _, p := range nondetCallees {
					if name == p || strings.HasSuffix(p, ".") && strings.HasPrefix(name, p) {
						if strings.HasPrefix(name, "time.") && clockOnlyLogged(n) {
							continue
						}
						bad(n.Pos(), "call of "+name)
					}
				}
				if strings.HasPrefix(name, "fmt.") {
					for _, ar := range n.Args {
						if bl, ok := ar.(*ast.BasicLit); ok && bl.Kind == token.STRING && strings.Contains(bl.Value, "%p") {
							bad(n.Pos(), "pointer value formatted with %p")
						}
					}
				}
			}
			if tv, ok := info.Types[n.Fun]; ok && tv.IsType() && len(n.Args) == 1 {
				if b, ok := tv.Type.Underlying().(*types.Basic); ok && b.Kind() == types.Uintptr {
					if at := info.TypeOf(n.Args[0]); at != nil {
						if ab, ok := at.Underlying().(*types.Basic); ok && ab.Kind() == types.UnsafePointer {
							bad(n.Pos(), "address converted to an integer")
						}
					}
				}
			}
		}
		return true
	})
	if len(why) > 0 {
		res.OK = false
		res.Reason = strings.Join(why, "; ")
	}
	return res
}

func (w *World) loopOrdinals(fi *FuncInfo) map[ast.Node]int {
	ords := map[ast.Node]int{}
	n := 0
	ast.Inspect(fi.Body(), func(nd ast.Node) bool {
		switch l := nd.(type) {
		case *ast.FuncLit:
			return false
		case *ast.CallExpr:
			if isForEachLit(l) != nil {
				ords[l] = n
				n++
				return false
			}
		case *ast.ForStmt:
			ords[l] = n
			n++
		case *ast.RangeStmt:
			ords[l] = n
			n++
		}
		return true
	})
	return ords
}

func (w *World) mapRangesOf(fi *FuncInfo) []*OrderResult {
	info := fi.Pkg.TypesInfo
	var out []*OrderResult
	ords := w.loopOrdinals(fi)
	contract := w.ByFunc[fi.Obj]
	// parents, for the statements that follow a loop
	parents := map[ast.Node]ast.Node{}
	var stack []ast.Node
	ast.Inspect(fi.Decl.Body, func(n ast.Node) bool {
		if n == nil {
			stack = stack[:len(stack)-1]
			return true
		}
		if len(stack) > 0 {
			parents[n] = stack[len(stack)-1]
		}
		stack = append(stack, n)
		return true
	})
	litN := 0
	usedAssumed := map[string]bool{}
	defer func() {
		if contract == nil {
			return
		}
		for e := range contract.OrderAssumedExpr {
			if !usedAssumed[e] {
				w.Errors = append(w.Errors, fmt.Sprintf("%s: 'maprange %s: order_assumed' matches no range over a map in the function", fi.Name, e))
			}
		}
		for e := range contract.OrderExceptExpr {
			if !usedAssumed[e] {
				w.Errors = append(w.Errors, fmt.Sprintf("%s: 'maprange %s: order_except' matches no range over a map in the function", fi.Name, e))
			}
		}
	}()
	var visit func(n ast.Node) bool
	visit = func(n ast.Node) bool {
		rs, ok := n.(*ast.RangeStmt)
		if !ok {
			return true
		}
		t := info.TypeOf(rs.X)
		if t == nil {
			return true
		}
		if _, isMap := t.Underlying().(*types.Map); !isMap {
			return true
		}
		ord, inTop := ords[rs]
		label := fmt.Sprintf("maprange#%d", ord)
		if !inTop {
			litN++
			label = fmt.Sprintf("maprange#lit%d", litN)
		}
		res := &OrderResult{Name: fi.Name + "/" + label + "/order-independent", Func: fi.Name, Kind: "maprange", Pos: w.Fset.Position(rs.Pos()).String()}
		out = append(out, res)
		if contract != nil {
			if why, ok := contract.OrderAssumedExpr[types.ExprString(rs.X)]; ok {
				res.OK = true
				res.Assumed = why
				res.Class = "assumed"
				usedAssumed[types.ExprString(rs.X)] = true
				return true
			}
		}
		if contract != nil && inTop {
			if why, ok := contract.OrderAssumed[ord]; ok {
				res.OK = true
				res.Assumed = why
				res.Class = "assumed"
				return true
			}
		}
		var ex *OrderExcept
		if contract != nil {
			if ex = contract.OrderExceptExpr[types.ExprString(rs.X)]; ex != nil {
				usedAssumed[types.ExprString(rs.X)] = true
			}
		}
		w.analyseMapRange(fi, rs, parents, contract, res, ex)
		return true
	}
	ast.Inspect(fi.Decl.Body, visit)
	return out
}

func (w *World) analyseMapRange(fi *FuncInfo, rs *ast.RangeStmt, parents map[ast.Node]ast.Node, contract *Contract, res *OrderResult, ex *OrderExcept) {
	info := fi.Pkg.TypesInfo
	a := &ordAn{w: w, fset: w.Fset, keyed: map[string]bool{}, assumes: map[string]bool{}, accs: map[*types.Var]string{}, accLit: map[*types.Var]string{}, accStmts: map[ast.Node]bool{}}
	a.loopSig = fi.Sig
	if ex != nil {
		a.except = ex.Callees
	}
	a.loopBreaks = map[*ast.BranchStmt]bool{}
	a.hasSortK = contract != nil && len(contract.SortKeys) > 0
	// which break statements leave this loop
	var mark func(n ast.Node, depth int)
	mark = func(n ast.Node, depth int) {
		ast.Inspect(n, func(c ast.Node) bool {
			if c == n {
				return true
			}
			switch c := c.(type) {
			case *ast.ForStmt, *ast.RangeStmt, *ast.SwitchStmt, *ast.TypeSwitchStmt, *ast.SelectStmt:
				// an unlabelled break inside binds to the inner statement; labelled ones are treated as leaving
				ast.Inspect(c, func(d ast.Node) bool {
					if b, ok := d.(*ast.BranchStmt); ok && b.Tok == token.BREAK && b.Label != nil {
						if lp, ok := parents[rs].(*ast.LabeledStmt); ok && lp.Label.Name == b.Label.Name {
							a.loopBreaks[b] = true
						}
					}
					return true
				})
				return false
			case *ast.FuncLit:
				return false
			case *ast.BranchStmt:
				if c.Tok == token.BREAK {
					a.loopBreaks[c] = true
				}
			}
			return true
		})
	}
	mark(rs.Body, 0)
	f0 := &ordFrame{info: info, env: map[*types.Var]int{}, names: map[*types.Var]string{}, depth: 0}
	f0.local = func(v *types.Var) bool { return v.Pos() >= rs.Pos() && v.Pos() <= rs.End() }
	a.frames = []*ordFrame{f0}
	a.M = a.nameOf(rs.X)
	mt := info.TypeOf(rs.X).Underlying().(*types.Map)
	if id, ok := rs.Key.(*ast.Ident); ok && id.Name != "_" {
		if v := a.varOf(id); v != nil {
			f0.env[v] = cKey
		}
	}
	if id, ok := rs.Value.(*ast.Ident); ok && id.Name != "_" {
		if v := a.varOf(id); v != nil {
			if immutableType(mt.Elem()) {
				f0.env[v] = cImm
			} else {
				f0.env[v] = cOwned
			}
		}
	}
	a.stmt(rs.Body)
	// accumulators read anywhere in the body (reads seen before the update was classified)
	for _, id := range a.lateReads {
		if v := a.varOf(id); v != nil && !a.accStmts[id] {
			if _, isAcc := a.accs[v]; isAcc {
				a.fail(id.Pos(), "accumulator %s is read inside the iteration", id.Name)
			}
		}
	}
	// early exits other than error returns: only when stopping early cannot be observed
	if len(a.earlyExits) > 0 {
		onlyFlags := !a.wroteOwn && len(a.keyed) == 0 && len(a.constSet) == 0
		for _, k := range a.accs {
			if k != "const" {
				onlyFlags = false
			}
		}
		if !onlyFlags {
			a.fail(a.earlyExits[0], "the loop is left early (break or constant return) although iterations have effects other than constant flags: which iterations ran depends on the iteration order")
		}
	}
	// slices collected in map order must be sorted before their next use
	for v, kind := range a.accs {
		if kind != "append" {
			continue
		}
		if why := a.sortedAfter(fi, rs, v, parents); why != "" {
			a.fail(rs.Pos(), "%s collects elements in map order and %s", v.Name(), why)
		}
	}
	// containers whose cells the iterations write may only be indexed by the loop key
	targets := map[string]bool{}
	for k := range a.keyed {
		targets[k] = true
	}
	if a.wroteOwn || a.keyed[a.M] {
		targets[a.M] = true
	}
	related := func(s string) string {
		for t := range targets {
			if s == t || strings.HasPrefix(t, s+".") || strings.HasPrefix(t, s+"[") {
				return t
			}
		}
		return ""
	}
	relatedTo := func(s string, set map[string]string) string {
		for t := range set {
			if s == t || strings.HasPrefix(t, s+".") || strings.HasPrefix(t, s+"[") {
				return t
			}
		}
		return ""
	}
	for _, ev := range a.events {
		if len(a.constSet) > 0 {
			switch ev.kind {
			case "idx", "whole":
				if t := relatedTo(ev.s, a.constSet); t != "" {
					a.failAt(ev.site, ev.pos, "%s is read (or handed to a callee) while iterations store into cells of %s under indices other than the loop key", ev.s, t)
				}
			case "alias":
				for _, r := range ev.roots {
					if strings.HasPrefix(r, "?") || relatedTo(r, a.constSet) != "" {
						a.failAt(ev.site, ev.pos, "a local holds a reference into %s while iterations store into it", r)
					}
				}
			}
		}
		switch ev.kind {
		case "idx":
			if targets[ev.s] && !ev.keyed {
				a.failAt(ev.site, ev.pos, "%s is indexed by something other than the loop key while iterations write its cells", ev.s)
			}
		case "whole":
			if strings.HasPrefix(ev.s, "?") && len(targets) > 0 {
				a.failAt(ev.site, ev.pos, "%s, which may reach state that iterations write, is handed to a callee", ev.s)
			} else if t := related(ev.s); t != "" {
				a.failAt(ev.site, ev.pos, "%s is used as a whole (or handed to a callee) while iterations write cells of %s", ev.s, t)
			}
		case "alias":
			for _, r := range ev.roots {
				if len(targets) > 0 && (strings.HasPrefix(r, "?") || related(r) != "") {
					a.failAt(ev.site, ev.pos, "a local holds a reference into %s (%s) while iterations write cells of it", r, ev.s)
				}
			}
		}
	}
	if a.wroteOwn && !immutableType(mt.Elem()) {
		a.assumes["values stored under distinct keys of "+a.M+" do not share mutable state with each other or with the other state the iteration reads (tree-shaped configuration / data model)"] = true
	}
	res.OK = len(a.fails) == 0
	if ex != nil {
		var names []string
		for n := range a.excused {
			names = append(names, n)
		}
		sort.Strings(names)
		res.Excepted = map[string]any{"reason": ex.Reason, "not_established_about": a.excused, "calls": names}
	}
	res.Reason = strings.Join(dedupe(a.fails), "; ")
	for s := range a.assumes {
		res.Assumes = append(res.Assumes, s)
	}
	sort.Strings(res.Assumes)
	var cls []string
	if len(a.keyed) > 0 {
		var ks []string
		for k := range a.keyed {
			ks = append(ks, k+"[key]")
		}
		sort.Strings(ks)
		cls = append(cls, "writes cells "+strings.Join(ks, ", "))
	}
	if a.wroteOwn {
		cls = append(cls, "writes objects owned by the key")
	}
	if len(a.constSet) > 0 {
		var ks []string
		for k, v := range a.constSet {
			ks = append(ks, k+"[..] = "+v)
		}
		sort.Strings(ks)
		cls = append(cls, "stores one constant into cells "+strings.Join(ks, ", "))
	}
	var accn []string
	for v, k := range a.accs {
		accn = append(accn, v.Name()+":"+k)
	}
	sort.Strings(accn)
	if len(accn) > 0 {
		cls = append(cls, "accumulators "+strings.Join(accn, ", "))
	}
	if len(cls) == 0 {
		cls = append(cls, "no writes outside the iteration")
	}
	res.Class = strings.Join(cls, "; ")
}

func dedupe(xs []string) []string {
	seen := map[string]bool{}
	var out []string
	for _, x := range xs {
		if !seen[x] {
			seen[x] = true
			out = append(out, x)
		}
	}
	return out
}

var totalSorts = map[string]bool{"sort.Strings": true, "sort.Ints": true, "sort.Float64s": true, "sort.Sort": true, "sort.Stable": true, "slices.Sort": true}
var keySorts = map[string]bool{"sort.Slice": true, "sort.SliceStable": true, "slices.SortFunc": true, "slices.SortStableFunc": true}

// sortedAfter: the first statement after the loop that mentions v sorts it.
func (a *ordAn) sortedAfter(fi *FuncInfo, rs *ast.RangeStmt, v *types.Var, parents map[ast.Node]ast.Node) string {
	info := fi.Pkg.TypesInfo
	var node ast.Node = rs
	if lp, ok := parents[rs].(*ast.LabeledStmt); ok {
		node = lp
	}
	blk, ok := parents[node].(*ast.BlockStmt)
	if !ok {
		return "the loop is not directly in a block"
	}
	after := false
	for _, s := range blk.List {
		if s == node {
			after = true
			continue
		}
		if !after {
			continue
		}
		mentions := false
		ast.Inspect(s, func(n ast.Node) bool {
			if id, ok := n.(*ast.Ident); ok && info.Uses[id] == v {
				mentions = true
			}
			return true
		})
		if !mentions {
			continue
		}
		es, ok := s.(*ast.ExprStmt)
		if !ok {
			return "is used before being sorted"
		}
		call, ok := es.X.(*ast.CallExpr)
		if !ok {
			return "is used before being sorted"
		}
		var fn *types.Func
		if se, ok := ast.Unparen(call.Fun).(*ast.SelectorExpr); ok {
			fn, _ = info.Uses[se.Sel].(*types.Func)
		}
		name := fullName(fn)
		if totalSorts[name] {
			return ""
		}
		if keySorts[name] {
			if len(call.Args) == 2 && comparesElements(info, call.Args[1], v) {
				return "" // ordered by the elements themselves: a total order
			}
			if a.hasSortK {
				a.assumes["the sort keys of distinct elements of "+v.Name()+" are distinct (the key is the map key of the element)"] = true
				return ""
			}
			return "is sorted by a comparator that no sortkey clause describes"
		}
		return "is used before being sorted"
	}
	return "is not sorted before the enclosing block ends"
}

// comparesElements: less is `func(i, j int) bool { return s[i] < s[j] }` (or >) over the slice itself.
func comparesElements(info *types.Info, less ast.Expr, v *types.Var) bool {
	lit, ok := ast.Unparen(less).(*ast.FuncLit)
	if !ok || len(lit.Body.List) != 1 || lit.Type.Params == nil {
		return false
	}
	var params []*types.Var
	for _, f := range lit.Type.Params.List {
		for _, n := range f.Names {
			if pv, ok := info.Defs[n].(*types.Var); ok {
				params = append(params, pv)
			}
		}
	}
	ret, ok := lit.Body.List[0].(*ast.ReturnStmt)
	if !ok || len(ret.Results) != 1 || len(params) != 2 {
		return false
	}
	be, ok := ast.Unparen(ret.Results[0]).(*ast.BinaryExpr)
	if !ok || (be.Op != token.LSS && be.Op != token.GTR) {
		return false
	}
	elem := func(e ast.Expr, p *types.Var) bool {
		ix, ok := ast.Unparen(e).(*ast.IndexExpr)
		if !ok {
			return false
		}
		s, ok1 := ast.Unparen(ix.X).(*ast.Ident)
		i, ok2 := ast.Unparen(ix.Index).(*ast.Ident)
		return ok1 && ok2 && info.Uses[s] == v && info.Uses[i] == p
	}
	return elem(be.X, params[0]) && elem(be.Y, params[1]) || elem(be.X, params[1]) && elem(be.Y, params[0])
}
