package symex

import (
	"fmt"
	"go/ast"
	"go/types"
)

// Static resolution of reflection (DESIGN.md 3.5): during symbolic execution a reflect.Value is
// not an SMT term but a descriptor of a location or value of statically known Go type. The
// operations below are the trusted semantics of package reflect; everything else about the
// function under verification (control flow, which field is copied where) is the real body.

type rdesc struct {
	typ     types.Type
	addr    bool // addressable / settable
	load    func(st *State) Term
	store   func(st *State, v Term)
	isTyp   bool  // a reflect.Type descriptor
	ptr     *Term // set when the value is *ptr (so that Field can address the field heap directly)
	dynamic bool  // made from an interface value: the dynamic type is not statically known
	valid   *Term // when set: the Value is the zero Value unless this condition holds
}

func isReflectType(t types.Type) bool {
	n, ok := types.Unalias(t).(*types.Named)
	if !ok || n.Obj().Pkg() == nil || n.Obj().Pkg().Path() != "reflect" {
		return false
	}
	switch n.Obj().Name() {
	case "Value", "Type", "StructField", "Kind":
		return n.Obj().Name() != "Kind"
	}
	return false
}

func (x *Exec) newRV(d *rdesc) Term {
	if x.rvals == nil {
		x.rvals = map[string]*rdesc{}
	}
	t := x.ctx.Fresh("rv", SInt)
	x.rvals[t.S] = d
	return t
}

func (x *Exec) rv(t Term) *rdesc {
	d, ok := x.rvals[t.S]
	if !ok {
		panic(unsupported("reflect value that is not statically resolvable"))
	}
	return d
}

var reflectKinds = map[string]int64{
	"Invalid": 0, "Bool": 1, "Int": 2, "Int8": 3, "Int16": 4, "Int32": 5, "Int64": 6, "Uint": 7, "Uint8": 8, "Uint16": 9,
	"Uint32": 10, "Uint64": 11, "Uintptr": 12, "Float32": 13, "Float64": 14, "Complex64": 15, "Complex128": 16, "Array": 17,
	"Chan": 18, "Func": 19, "Interface": 20, "Map": 21, "Pointer": 22, "Slice": 23, "String": 24, "Struct": 25, "UnsafePointer": 26,
}

func kindOf(t types.Type) int64 {
	switch u := t.Underlying().(type) {
	case *types.Basic:
		switch u.Kind() {
		case types.Bool:
			return 1
		case types.Int:
			return 2
		case types.Int8:
			return 3
		case types.Int16:
			return 4
		case types.Int32:
			return 5
		case types.Int64:
			return 6
		case types.Uint:
			return 7
		case types.Uint8:
			return 8
		case types.Uint16:
			return 9
		case types.Uint32:
			return 10
		case types.Uint64:
			return 11
		case types.Uintptr:
			return 12
		case types.Float32:
			return 13
		case types.Float64:
			return 14
		case types.String:
			return 24
		case types.UnsafePointer:
			return 26
		}
	case *types.Array:
		return 17
	case *types.Chan:
		return 18
	case *types.Signature:
		return 19
	case *types.Interface:
		return 20
	case *types.Map:
		return 21
	case *types.Pointer:
		return 22
	case *types.Slice:
		return 23
	case *types.Struct:
		return 25
	}
	return 0
}

func constIndex(t Term) (int, bool) {
	n := 0
	if len(t.S) == 0 {
		return 0, false
	}
	for _, c := range t.S {
		if c < '0' || c > '9' {
			return 0, false
		}
		n = n*10 + int(c-'0')
	}
	return n, true
}

// callReflect interprets a call into package reflect on descriptors.
func (x *Exec) callReflect(call *ast.CallExpr, fn *types.Func, recv *Term, st *State) []Term {
	name := fn.Name()
	// arguments are evaluated here, once (ValueOf needs the unboxed value)
	var args []Term
	if !(recv == nil && (name == "ValueOf" || name == "TypeOf")) {
		for _, a := range call.Args {
			args = append(args, x.eval(a, st))
		}
	}
	if recv == nil {
		switch name {
		case "ValueOf":
			t := x.typeOf(call.Args[0])
			if isInterface(t) {
				// dynamic type unknown: only value-level queries, as uninterpreted functions
				v := x.eval(call.Args[0], st)
				return []Term{x.newRV(&rdesc{typ: t, dynamic: true, load: func(*State) Term { return v }})}
			}
			// args[0] was boxed into `any`; take the concrete value again
			v := x.eval(call.Args[0], st)
			return []Term{x.newRV(&rdesc{typ: t, load: func(*State) Term { return v }})}
		case "New":
			td := x.rv(args[0])
			r := x.allocRef(st, "reflectNew")
			x.storePtr(st, r, td.typ, x.zero(td.typ))
			pt := types.NewPointer(td.typ)
			return []Term{x.newRV(&rdesc{typ: pt, load: func(*State) Term { return r }})}
		case "TypeOf":
			t := x.typeOf(call.Args[0])
			return []Term{x.newRV(&rdesc{typ: t, isTyp: true})}
		}
		panic(unsupported("reflect." + name))
	}
	d := x.rv(*recv)
	if d.isTyp {
		switch name {
		case "Elem":
			switch u := d.typ.Underlying().(type) {
			case *types.Pointer:
				return []Term{x.newRV(&rdesc{typ: u.Elem(), isTyp: true})}
			case *types.Slice:
				return []Term{x.newRV(&rdesc{typ: u.Elem(), isTyp: true})}
			case *types.Map:
				return []Term{x.newRV(&rdesc{typ: u.Elem(), isTyp: true})}
			}
		case "Kind":
			return []Term{intLit(kindOf(d.typ))}
		case "NumField":
			return []Term{intLit(int64(d.typ.Underlying().(*types.Struct).NumFields()))}
		case "Field":
			i, ok := constIndex(args[0])
			if !ok {
				panic(unsupported("reflect.Type.Field with a symbolic index"))
			}
			stt := d.typ.Underlying().(*types.Struct)
			f := stt.Field(i)
			// StructField value: only Name and Type are modelled, as a descriptor
			sf := x.newRV(&rdesc{typ: f.Type(), isTyp: true})
			x.rfieldNames[sf.S] = f.Name()
			return []Term{sf}
		case "Name", "String":
			return []Term{x.ctx.StrLit(d.typ.String())}
		}
		panic(unsupported("reflect.Type." + name))
	}
	if d.valid != nil {
		// Elem() of a nil pointer is the zero Value: Kind() is Invalid, IsValid() false, anything else panics
		switch name {
		case "Kind":
			return []Term{ite(*d.valid, intLit(kindOf(d.typ)), intLit(0))}
		case "IsValid":
			return []Term{*d.valid}
		}
		x.safety(st, "reflect-nil", *d.valid, "reflect.Value."+name+" on the zero Value (Elem of a nil pointer) panics", call.Pos())
	}
	if d.dynamic {
		v := d.load(st)
		switch name {
		case "IsZero":
			return []Term{x.ctx.App("reflect_IsZero", SBool, v)}
		case "IsNil":
			return []Term{x.ctx.App("reflect_IsNil", SBool, v)}
		case "IsValid":
			return []Term{not(eq(v, intLit(0)))}
		case "Kind":
			return []Term{x.ctx.App("reflect_Kind", SInt, mk(SInt, "dyn", v))}
		case "Interface":
			return []Term{v}
		case "Len":
			l := x.ctx.App("reflect_Len", SInt, v)
			st.assume(mk(SBool, ">=", l, intLit(0)))
			return []Term{l}
		case "String":
			return []Term{x.ctx.App("reflect_String", SStr, v)}
		}
		panic(unsupported("reflect.Value." + name + " on a value of statically unknown type"))
	}
	switch name {
	case "Elem":
		p, ok := d.typ.Underlying().(*types.Pointer)
		if !ok {
			panic(unsupported("reflect.Value.Elem on " + d.typ.String()))
		}
		ptr := d.load(st)
		valid := not(eq(ptr, intLit(0)))
		elem := p.Elem()
		return []Term{x.newRV(&rdesc{typ: elem, addr: true, ptr: &ptr, valid: &valid,
			load:  func(s *State) Term { return x.loadPtr(s, ptr, elem) },
			store: func(s *State, v Term) { x.storePtr(s, ptr, elem, v) }})}
	case "Field":
		i, ok := constIndex(args[0])
		if !ok {
			panic(unsupported("reflect.Value.Field with a symbolic index"))
		}
		si := x.structOf(d.typ)
		if i >= len(si.Fields) {
			panic(unsupported("reflect.Value.Field index out of range"))
		}
		ft := si.Fields[i].Type
		if d.ptr != nil {
			lv := heapFieldLV{x, *d.ptr, si, i}
			return []Term{x.newRV(&rdesc{typ: ft, addr: true, load: lv.load, store: lv.store})}
		}
		parent := d
		nd := &rdesc{typ: ft, addr: parent.addr, load: func(s *State) Term { return x.structField(parent.load(s), si, i) }}
		if parent.addr {
			nd.store = func(s *State, v Term) { parent.store(s, x.withField(parent.load(s), si, i, v)) }
		}
		return []Term{x.newRV(nd)}
	case "NumField":
		return []Term{intLit(int64(len(x.structOf(d.typ).Fields)))}
	case "Kind":
		return []Term{intLit(kindOf(d.typ))}
	case "Type":
		return []Term{x.newRV(&rdesc{typ: d.typ, isTyp: true})}
	case "Interface":
		return []Term{x.box(st, d.load(st), d.typ)}
	case "IsNil":
		v := d.load(st)
		switch d.typ.Underlying().(type) {
		case *types.Pointer, *types.Map, *types.Signature, *types.Chan, *types.Interface:
			return []Term{eq(v, intLit(0))}
		case *types.Slice:
			return []Term{not(x.sliceNonNil(v))}
		}
		panic(unsupported("reflect.Value.IsNil on " + d.typ.String()))
	case "IsZero":
		v := d.load(st)
		switch d.typ.Underlying().(type) {
		case *types.Slice:
			return []Term{not(x.sliceNonNil(v))}
		}
		return []Term{eq(v, x.zero(d.typ))}
	case "CanSet", "CanAddr":
		if d.addr {
			return []Term{tTrue}
		}
		return []Term{tFalse}
	case "Set":
		if !d.addr || d.store == nil {
			x.endPanic(st, "explicit-panic", "reflect.Value.Set on an unaddressable value", call.Pos())
		}
		w := x.rv(args[0])
		if !types.Identical(w.typ, d.typ) && !types.AssignableTo(w.typ, d.typ) {
			x.endPanic(st, "explicit-panic", fmt.Sprintf("reflect.Value.Set: %s is not assignable to %s", w.typ, d.typ), call.Pos())
		}
		d.store(st, w.load(st))
		return nil
	case "String":
		if isStringType(d.typ) {
			return []Term{d.load(st)}
		}
		return []Term{x.ctx.StrLit("<" + d.typ.String() + " Value>")}
	case "Bool", "Int", "Len":
		v := d.load(st)
		if name == "Len" {
			if x.isSliceSort(v.Sort) {
				return []Term{x.sliceLen(v)}
			}
			if v.Sort == SStr {
				return []Term{mk(SInt, "slen", v)}
			}
		}
		return []Term{v}
	}
	panic(unsupported("reflect.Value." + name))
}
