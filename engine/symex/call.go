package symex

import (
	"fmt"
	"go/ast"
	"go/token"
	"go/types"
	"strings"
)

// calleeFunc resolves the statically known callee of a call, if any.
func (x *Exec) calleeFunc(call *ast.CallExpr) *types.Func {
	fun := ast.Unparen(call.Fun)
	switch f := fun.(type) {
	case *ast.Ident:
		fn, _ := x.info().Uses[f].(*types.Func)
		return fn
	case *ast.SelectorExpr:
		if sel, ok := x.info().Selections[f]; ok {
			fn, _ := sel.Obj().(*types.Func)
			return fn
		}
		fn, _ := x.info().Uses[f.Sel].(*types.Func)
		return fn
	case *ast.IndexExpr:
		if id, ok := f.X.(*ast.Ident); ok {
			fn, _ := x.info().Uses[id].(*types.Func)
			return fn
		}
		if se, ok := f.X.(*ast.SelectorExpr); ok {
			fn, _ := x.info().Uses[se.Sel].(*types.Func)
			return fn
		}
	}
	return nil
}

func pkgPathOf(o types.Object) string {
	if o == nil || o.Pkg() == nil {
		return ""
	}
	return o.Pkg().Path()
}

func isLogType(t types.Type) bool {
	if t == nil {
		return false
	}
	s := t.String()
	return strings.Contains(s, "github.com/rs/zerolog")
}

// isLoggingCall: calls whose receiver or function belongs to zerolog (DESIGN.md 3.6 "Dropped").
func (x *Exec) isLoggingCall(call *ast.CallExpr) bool {
	fun := ast.Unparen(call.Fun)
	if se, ok := fun.(*ast.SelectorExpr); ok {
		if sel, ok := x.info().Selections[se]; ok {
			if isLogType(sel.Recv()) {
				return true
			}
		}
		if fn, ok := x.info().Uses[se.Sel].(*types.Func); ok && (strings.HasPrefix(pkgPathOf(fn), "github.com/rs/zerolog") || pkgPathOf(fn) == "github.com/vektra/mockery/v3/internal/logging") {
			return true
		}
	}
	return false
}

// chainHasFatal reports whether a zerolog call chain starts an event with Fatal()/Panic().
func chainHasFatal(e ast.Expr) string {
	for {
		call, ok := e.(*ast.CallExpr)
		if !ok {
			return ""
		}
		se, ok := call.Fun.(*ast.SelectorExpr)
		if !ok {
			return ""
		}
		if se.Sel.Name == "Fatal" {
			return "fatal"
		}
		if se.Sel.Name == "Panic" {
			return "panic"
		}
		e = se.X
	}
}

func (x *Exec) evalCall(call *ast.CallExpr, st *State) []Term {
	x.curPos = call.Pos()
	fun := ast.Unparen(call.Fun)
	// conversion
	if tv, ok := x.info().Types[fun]; ok && tv.IsType() {
		return []Term{x.evalConversion(call, tv.Type, st)}
	}
	// builtin
	if id, ok := fun.(*ast.Ident); ok {
		if b, ok := x.info().Uses[id].(*types.Builtin); ok {
			return x.evalBuiltin(call, b.Name(), st)
		}
	}
	// logging
	if x.isLoggingCall(call) {
		return x.evalLogging(call, st)
	}
	fn := x.calleeFunc(call)
	if fn == nil {
		return x.callFuncValue(call, st)
	}
	x.countCall(st, fn)
	if op, ok := lockMethods[extName(fn)]; ok {
		x.callLock(call, op, st)
		return nil
	}
	sig := fn.Type().(*types.Signature)
	// receiver
	var recv *Term
	var recvT types.Type
	var after []func()
	if se, ok := fun.(*ast.SelectorExpr); ok {
		if sel, ok := x.info().Selections[se]; ok && sel.Kind() == types.MethodVal {
			r, rt, post := x.evalReceiver(se, sel, sig, st)
			recv, recvT = &r, rt
			after = post
		}
	}
	// static receiver type (names the uninterpreted function of external methods)
	savedRS := x.recvStatic
	x.recvStatic = nil
	if se, ok := fun.(*ast.SelectorExpr); ok && recv != nil {
		x.recvStatic = x.typeOf(se.X)
	}
	defer func() { x.recvStatic = savedRS }()
	if pkgPathOf(fn) == "reflect" {
		// (also the methods of the interface reflect.Type: descriptors are resolved statically)
		return x.callReflect(call, fn, recv, st)
	}
	// interface method: dynamic dispatch
	if recv != nil && isInterface(recvT) {
		return x.callInterfaceMethod(call, fn, *recv, recvT, st)
	}
	args := x.evalArgs(call, sig, st)
	after = append(after, x.pendingWriteBacks...)
	x.pendingWriteBacks = nil
	if isRepoObj(fn) {
		x.siteObligations(call, fn, recv, args, st)
	}
	res := x.dispatch(call, fn, recv, args, st)
	for _, f := range after {
		f()
	}
	x.noteLastErr(st, fn, res)
	return res
}

// countCall maintains the ghost call counters read by called("name") in contracts.
func (x *Exec) countCall(st *State, fn *types.Func) {
	if st.ghost == nil {
		st.ghost = map[string]Term{}
	}
	for _, k := range []string{"called:" + fn.Name(), "called:" + extName(fn)} {
		v, ok := st.ghost[k]
		if !ok {
			v = x.ghostDefault(st, k)
		}
		if f, ok := foldArith("+", v, intLit(1)); ok {
			st.ghost[k] = f
		} else {
			st.ghost[k] = mk(SInt, "+", v, intLit(1))
		}
	}
}

// evalArgs evaluates call arguments against the signature (variadic packing, boxing).
func (x *Exec) evalArgs(call *ast.CallExpr, sig *types.Signature, st *State) []Term {
	np := sig.Params().Len()
	var args []Term
	// f(g()) with multi-value g
	if len(call.Args) == 1 && np > 1 {
		if tup, ok := x.info().TypeOf(call.Args[0]).(*types.Tuple); ok {
			vals := x.evalMulti(call.Args[0], st, tup.Len())
			for i, v := range vals {
				if i < np {
					v = x.convert(st, v, tup.At(i).Type(), sig.Params().At(i).Type())
				}
				args = append(args, v)
			}
			return args
		}
	}
	for i := 0; i < np; i++ {
		pt := x.substDeep(sig.Params().At(i).Type())
		if sig.Variadic() && i == np-1 {
			st0 := pt.Underlying().(*types.Slice)
			if call.Ellipsis.IsValid() {
				args = append(args, x.eval(call.Args[i], st))
				break
			}
			elem := x.sortOf(st0.Elem())
			arr := x.constArray(arraySort(SInt, elem), x.zero(st0.Elem()))
			n := 0
			x.lastVarargs = x.lastVarargs[:0]
			for j := i; j < len(call.Args); j++ {
				raw := x.eval(call.Args[j], st)
				from := x.info().TypeOf(call.Args[j])
				x.lastVarargs = append(x.lastVarargs, rawArg{raw, from})
				var cv Term
				if from != nil && isNilType(from) {
					if _, ok := st0.Elem().Underlying().(*types.Slice); ok {
						cv = x.zero(st0.Elem())
					} else {
						cv = x.convert(st, raw, from, st0.Elem())
					}
				} else {
					cv = x.convert(st, raw, from, st0.Elem())
				}
				arr = store(arr, intLit(int64(n)), cv)
				n++
			}
			arr = x.name(st, "varargs", arr)
			args = append(args, x.mkSlice(elem, arr, intLit(int64(n)), Term{fmt.Sprint(n > 0), SBool}, intLit(0)))
			break
		}
		if i >= len(call.Args) {
			panic(unsupported("missing argument"))
		}
		// &lvalue of a non-local location: copy-in / copy-out through a temporary
		if ue, ok := ast.Unparen(call.Args[i]).(*ast.UnaryExpr); ok && ue.Op == token.AND {
			if _, isLit := ast.Unparen(ue.X).(*ast.CompositeLit); !isLit && !x.isBoxedIdent(ue.X) {
				if _, isPtr := pt.Underlying().(*types.Pointer); isPtr || isInterface(pt) {
					ref, rt, post := x.interiorPointer(ue.X, x.typeOf(ue.X), st)
					x.pendingWriteBacks = append(x.pendingWriteBacks, post...)
					args = append(args, x.convert(st, ref, rt, pt))
					continue
				}
			}
		}
		args = append(args, x.evalTo(call.Args[i], st, pt))
	}
	return args
}

// evalReceiver evaluates the receiver of a method call, adjusting pointer/value.
// It returns deferred write-backs for interior pointers (copy-in / copy-out).
func (x *Exec) evalReceiver(se *ast.SelectorExpr, sel *types.Selection, sig *types.Signature, st *State) (Term, types.Type, []func()) {
	recvParamT := sig.Recv().Type()
	_, wantPtr := recvParamT.Underlying().(*types.Pointer)
	if isInterface(recvParamT) || isInterface(sel.Recv()) && len(sel.Index()) == 1 {
		v := x.eval(se.X, st)
		return v, x.typeOf(se.X), nil
	}
	if fnObj, ok := sel.Obj().(*types.Func); ok && !isRepoObj(fnObj) {
		// methods of external types are opaque functions of the outer value, even when
		// promoted from embedded fields; a pointer-receiver method on an addressable local gets its address
		if wantPtr {
			if id, ok := ast.Unparen(se.X).(*ast.Ident); ok {
				if lv, ok := x.info().Uses[id].(*types.Var); ok && x.boxed[lv] {
					if _, isPtr := lv.Type().Underlying().(*types.Pointer); !isPtr {
						return st.vars[lv], types.NewPointer(lv.Type()), nil
					}
				}
			}
		}
		v := x.eval(se.X, st)
		return v, x.typeOf(se.X), nil
	}
	path := sel.Index()
	fieldPath := path[:len(path)-1]
	baseT := x.typeOf(se.X)
	_, baseIsPtr := baseT.Underlying().(*types.Pointer)
	// simple cases first
	if len(fieldPath) == 0 {
		if wantPtr {
			if baseIsPtr {
				return x.eval(se.X, st), recvParamT, nil
			}
			// addressable value: boxed local, or interior location
			if id, ok := ast.Unparen(se.X).(*ast.Ident); ok {
				if v, ok := x.info().Uses[id].(*types.Var); ok && x.boxed[v] {
					return st.vars[v], recvParamT, nil
				}
			}
			return x.interiorPointer(se.X, baseT, st)
		}
		v := x.eval(se.X, st)
		if baseIsPtr {
			x.nilCheck(st, v, "method call on nil pointer", se.Pos())
			return x.loadPtr(st, v, baseT.Underlying().(*types.Pointer).Elem()), recvParamT, nil
		}
		return v, recvParamT, nil
	}
	// promoted method through embedded fields
	base := x.eval(se.X, st)
	cur := x.walkFields(st, base, baseT, fieldPath, se.Pos())
	// type after the walk
	curT := baseT
	for _, idx := range fieldPath {
		curT = x.subst(types.Unalias(curT))
		if p, ok := curT.Underlying().(*types.Pointer); ok {
			curT = p.Elem()
		}
		curT = x.structOf(curT).Fields[idx].Type
	}
	_, curIsPtr := curT.Underlying().(*types.Pointer)
	if isInterface(curT) {
		return cur, curT, nil
	}
	switch {
	case wantPtr && curIsPtr, !wantPtr && !curIsPtr:
		return cur, recvParamT, nil
	case !wantPtr && curIsPtr:
		return x.loadPtr(st, cur, curT.Underlying().(*types.Pointer).Elem()), recvParamT, nil
	default:
		// pointer receiver on an embedded value: interior pointer
		tmp := x.allocRef(st, "interior")
		x.storePtr(st, tmp, curT, cur)
		lv := x.fieldLV(se.X, fieldPath, st, se.Pos())
		return tmp, recvParamT, []func(){func() { lv.store(st, x.loadPtr(st, tmp, curT)) }}
	}
}

func (x *Exec) isBoxedIdent(e ast.Expr) bool {
	if id, ok := ast.Unparen(e).(*ast.Ident); ok {
		if v, ok := x.info().Uses[id].(*types.Var); ok {
			return x.boxed[v] || isLogType(v.Type())
		}
	}
	return false
}

// interiorPointer models &e for a non-local lvalue by copy-in/copy-out through a temporary.
// Assumption (listed in evidence): the callee does not retain the pointer.
func (x *Exec) interiorPointer(e ast.Expr, t types.Type, st *State) (Term, types.Type, []func()) {
	lv := x.lvalue(e, st)
	tmp := x.allocRef(st, "interior")
	x.storePtr(st, tmp, t, lv.load(st))
	return tmp, types.NewPointer(t), []func(){func() { lv.store(st, x.loadPtr(st, tmp, t)) }}
}

// dispatch calls a statically known function: contract, inline, or external.
func (x *Exec) dispatch(call *ast.CallExpr, fn *types.Func, recv *Term, args []Term, st *State) []Term {
	origin := fn.Origin()
	if c := x.w.ByFunc[origin]; c != nil && c.Fn != nil && !(x.top().top && false) {
		// the function under verification calling itself also goes through its contract
		return x.callContract(call, c, fn, recv, args, st)
	}
	if fi := x.w.Funcs[origin]; fi != nil {
		return x.inline(call, fi, fn, recv, args, st)
	}
	return x.callExternal(call, fn, recv, args, st)
}

// ---- conversions ----

func (x *Exec) evalConversion(call *ast.CallExpr, to types.Type, st *State) Term {
	arg := call.Args[0]
	from := x.typeOf(arg)
	v := x.eval(arg, st)
	to = x.subst(types.Unalias(to))
	switch {
	case isInterface(to):
		return x.convert(st, v, from, to)
	case isStringType(to) && isIntType(from):
		return x.ctx.App("runeToString", SStr, v)
	case isStringType(to) && !isStringType(from):
		// string([]byte)
		return x.ctx.App("bytesToString_"+sortKey(v.Sort), SStr, v)
	case isIntType(to) && isIntType(from):
		// width conversions: same mathematical value when in range (byte->rune etc.);
		// out-of-range conversions are not modelled
		lo, hi := intRange(to.Underlying().(*types.Basic))
		flo, fhi := intRange(from.Underlying().(*types.Basic))
		if lo != "" && flo != "" && !(rangeWithin(flo, fhi, lo, hi)) {
			st.approx = append(st.approx, "narrowing integer conversion at "+x.posString(call.Pos()))
		}
		return v
	}
	if x.sortOf(to) == v.Sort {
		return v
	}
	panic(unsupported("conversion " + from.String() + " to " + to.String()))
}

func rangeWithin(flo, fhi, lo, hi string) bool {
	cmp := func(a, b string) int { // compares decimal strings with optional minus
		na, nb := strings.HasPrefix(a, "-"), strings.HasPrefix(b, "-")
		if na != nb {
			if na {
				return -1
			}
			return 1
		}
		aa, bb := strings.TrimPrefix(a, "-"), strings.TrimPrefix(b, "-")
		r := 0
		if len(aa) != len(bb) {
			if len(aa) < len(bb) {
				r = -1
			} else {
				r = 1
			}
		} else {
			r = strings.Compare(aa, bb)
		}
		if na {
			return -r
		}
		return r
	}
	return cmp(flo, lo) >= 0 && cmp(fhi, hi) <= 0
}

// ---- builtins ----

func (x *Exec) evalBuiltin(call *ast.CallExpr, name string, st *State) []Term {
	switch name {
	case "len", "cap":
		t := x.typeOf(call.Args[0])
		v := x.eval(call.Args[0], st)
		switch u := t.Underlying().(type) {
		case *types.Slice, *types.Array:
			return []Term{x.sliceLen(v)}
		case *types.Basic:
			return []Term{mk(SInt, "slen", v)}
		case *types.Map:
			mh := x.mapHeap(u)
			ks, vs := mh.ks, mh.vs
			_, _ = ks, vs
			has := sel(x.heapGet(st, mh.has, arraySort(SInt, arraySort(ks, SBool))), v)
			return []Term{ite(eq(v, intLit(0)), intLit(0), x.mapCard(has))}
		}
		panic(unsupported("len of " + t.String()))
	case "append":
		t := x.typeOf(call.Args[0])
		st0, ok := t.Underlying().(*types.Slice)
		if !ok {
			panic(unsupported("append to " + t.String()))
		}
		s := x.eval(call.Args[0], st)
		elem := x.sortOf(st0.Elem())
		if x.info().TypeOf(call.Args[0]) != nil && isNilType(x.info().TypeOf(call.Args[0])) {
			s = x.zero(t)
		}
		arr, ln := x.sliceElemsOf(s), x.sliceLen(s)
		if call.Ellipsis.IsValid() {
			o := x.eval(call.Args[1], st)
			na := x.ctx.Fresh("appended", arr.Sort)
			ol := x.sliceLen(o)
			st.define(Term{fmt.Sprintf("(forall ((k Int)) (! (= (select %s k) (ite (< k %s) (select %s k) (select %s (- k %s)))) :pattern ((select %s k))))", na.S, ln.S, arr.S, x.sliceElemsOf(o).S, ln.S, na.S), SBool})
			return []Term{x.mkSlice(elem, na, mk(SInt, "+", ln, ol), or(x.sliceNonNil(s), mk(SBool, ">", ol, intLit(0))), x.appendArr(st, s, mk(SBool, ">", ol, intLit(0))))}
		}
		n := 0
		for _, a := range call.Args[1:] {
			arr = store(arr, mk(SInt, "+", ln, intLit(int64(n))), x.evalTo(a, st, st0.Elem()))
			n++
		}
		arr = x.name(st, "appended", arr)
		nn := x.sliceNonNil(s)
		if n > 0 {
			nn = tTrue
		}
		return []Term{x.mkSlice(elem, arr, mk(SInt, "+", ln, intLit(int64(n))), nn, x.appendArr(st, s, Term{fmt.Sprint(n > 0), SBool}))}
	case "make":
		t := x.typeOf(call.Args[0])
		switch u := t.Underlying().(type) {
		case *types.Map:
			for _, a := range call.Args[1:] {
				x.eval(a, st)
			}
			return []Term{x.newMap(st, u)}
		case *types.Slice:
			n := x.eval(call.Args[1], st)
			x.safety(st, "make-len", mk(SBool, ">=", n, intLit(0)), "make with negative length", call.Pos())
			elem := x.sortOf(u.Elem())
			return []Term{x.mkSlice(elem, x.constArray(arraySort(SInt, elem), x.zero(u.Elem())), n, tTrue, x.allocRef(st, "array"))}
		}
		panic(unsupported("make of " + t.String()))
	case "new":
		t := x.typeOf(call.Args[0])
		r := x.allocRef(st, "new")
		x.storePtr(st, r, t, x.zero(t))
		return []Term{r}
	case "delete":
		mt := x.typeOf(call.Args[0]).Underlying().(*types.Map)
		m := x.eval(call.Args[0], st)
		k := x.evalTo(call.Args[1], st, mt.Key())
		x.mapDelete(st, m, k, mt)
		return nil
	case "panic":
		v := x.eval(call.Args[0], st)
		_ = v
		x.endPanic(st, "explicit-panic", "panic("+x.exprString(call.Args[0])+")", call.Pos())
		return nil
	case "min", "max":
		a := x.eval(call.Args[0], st)
		for _, e := range call.Args[1:] {
			b := x.eval(e, st)
			if name == "min" {
				a = ite(mk(SBool, "<=", a, b), a, b)
			} else {
				a = ite(mk(SBool, ">=", a, b), a, b)
			}
		}
		return []Term{a}
	case "copy":
		panic(unsupported("copy"))
	case "print", "println":
		for _, a := range call.Args {
			x.eval(a, st)
		}
		return nil
	}
	panic(unsupported("builtin " + name))
}

// ---- path endings ----

// endPanic ends the current path by a panic. Unless the contract permits it (panics_if),
// reaching it is an obligation.
func (x *Exec) endPanic(st *State, kind, desc string, pos token.Pos) {
	allowed := tFalse
	if x.contract != nil {
		for _, c := range x.contract.PanicsIf {
			env := x.funcEnv(st)
			env.locals = true
			allowed = or(allowed, env.evalBool(c.Expr))
		}
	}
	props := appendUnique(x.contract.Props, "C09")
	x.emit(st, kind, "", allowed, props, "unreachable unless permitted: "+desc, pos)
	x.checkLocksReleased(st, pos)
	panic(pathEnd{})
}

// endExit ends the current path by os.Exit / log.Fatal.
func (x *Exec) endExit(st *State, status Term, desc string, pos token.Pos) {
	// run deferred? os.Exit does not run deferred functions.
	if st.ghost == nil {
		st.ghost = map[string]Term{}
	}
	st.ghost["exited"] = tTrue
	st.ghost["exitStatus"] = status
	if x.contract != nil && len(x.frames) >= 1 {
		x.checkExit(st, status, desc, pos)
	}
	panic(pathEnd{})
}

// ---- logging ----

func (x *Exec) evalLogging(call *ast.CallExpr, st *State) []Term {
	// evaluate nothing inside (arguments of logging calls are not part of the verified text),
	// except that Fatal()/Panic() chains end the path when the event is sent
	if se, ok := call.Fun.(*ast.SelectorExpr); ok {
		switch se.Sel.Name {
		case "Msg", "Msgf", "Send", "MsgFunc":
			switch chainHasFatal(se.X) {
			case "fatal":
				x.endExit(st, intLit(1), "log.Fatal()", call.Pos())
			case "panic":
				x.endPanic(st, "explicit-panic", "log.Panic()", call.Pos())
			}
		}
	}
	t := x.info().TypeOf(call)
	if t == nil {
		return nil
	}
	if tup, ok := t.(*types.Tuple); ok {
		var out []Term
		for i := 0; i < tup.Len(); i++ {
			out = append(out, x.ctx.Fresh("logv", x.sortOf(tup.At(i).Type())))
		}
		return out
	}
	v := x.ctx.Fresh("logv", x.sortOf(t))
	if _, ok := t.Underlying().(*types.Pointer); ok {
		st.assume(mk(SBool, ">", v, intLit(0)))
	}
	return []Term{v}
}

// ---- function values ----

func (x *Exec) callFuncValue(call *ast.CallExpr, st *State) []Term {
	ft := x.typeOf(call.Fun)
	sig, ok := ft.Underlying().(*types.Signature)
	if !ok {
		panic(unsupported("call of non-function " + x.exprString(call.Fun)))
	}
	// immediately-invoked literal or literal bound to a local: inline
	if lit := x.litOf(call.Fun); lit != nil {
		fi := x.w.LitInfo[lit]
		if fi == nil {
			fi = &FuncInfo{Lit: lit, Pkg: x.top().pkg, Name: x.top().fi.Name + "$lit", Sig: sig, Encl: x.top().fi}
		}
		args := x.evalArgs(call, sig, st)
		return x.inline(call, fi, nil, nil, args, st)
	}
	f := x.eval(call.Fun, st)
	if x.contract != nil && x.contract.Safety["type-assert-may-panic"] {
		st.assume(not(eq(f, intLit(0)))) // (a nil function configured by the caller: accepted like a value of the wrong type)
	} else {
		x.safety(st, "nil-func", not(eq(f, intLit(0))), "call of possibly nil function value "+x.exprString(call.Fun), call.Pos())
	}
	args := x.evalArgs(call, sig, st)
	return x.applyFn(st, f, sig, args, call.Pos())
}

// applyFn models a call of an unknown function value: results are uninterpreted functions of
// (function, arguments, invocation counter); the invocation is recorded in the ghost trace.
func (x *Exec) applyFn(st *State, f Term, sig *types.Signature, args []Term, pos token.Pos) []Term {
	x.recordEvent(st, "call", append([]Term{f}, args...))
	x.applySites(st, f, sig, args, pos)
	var out []Term
	n := x.ghostCounter(st, "invocations")
	defer func() {
		// ghost record of the most recent application (readable in contracts: lastfn(), lastarg(i), lastres(i))
		if x.applyTypes == nil {
			x.applyTypes = map[string]types.Type{}
		}
		st.ghost["lastfn"] = f
		x.applyTypes["lastfn"] = sig
		for i, a := range args {
			k := fmt.Sprintf("lastarg:%d", i)
			st.ghost[k] = a
			if i < sig.Params().Len() {
				x.applyTypes[k] = sig.Params().At(i).Type()
			}
		}
		for i, r := range out {
			k := fmt.Sprintf("lastres:%d", i)
			st.ghost[k] = r
			x.applyTypes[k] = sig.Results().At(i).Type()
			// the set of values returned by calls through function values (produced(v) in contracts)
			pk := "produced:" + string(r.Sort)
			set, ok := st.ghost[pk]
			if !ok {
				set = x.constArray(arraySort(r.Sort, SBool), tFalse)
			}
			st.ghost[pk] = store(set, r, tTrue)
		}
	}()
	for i := 0; i < sig.Results().Len(); i++ {
		rt := sig.Results().At(i).Type()
		name := fmt.Sprintf("apply%d_%s", i, mangle(typeTagString(sig)))
		all := append([]Term{f, n}, args...)
		v := x.ctx.App(name, x.sortOf(rt), all...)
		out = append(out, x.name(st, "applied", v))
	}
	// an unknown function may do anything to the heap it can reach
	if x.contract == nil || !x.contract.Safety["callbacks-pure"] {
		if x.contract != nil && x.contract.Safety["callbacks-exempt"] {
			// what the user's function does is not a write of the function under contract
			x.inFrameEval = true
			x.havocAll(st)
			x.inFrameEval = false
		} else {
			x.havocAll(st)
		}
	}
	return out
}

func (x *Exec) ghostCounter(st *State, name string) Term {
	if st.ghost == nil {
		st.ghost = map[string]Term{}
	}
	v, ok := st.ghost[name]
	if !ok {
		v = intLit(0)
	}
	st.ghost[name] = mk(SInt, "+", v, intLit(1))
	return v
}

// litOf returns the function literal a call target denotes, when syntactically evident.
func (x *Exec) litOf(e ast.Expr) *ast.FuncLit {
	switch f := ast.Unparen(e).(type) {
	case *ast.FuncLit:
		return f
	case *ast.Ident:
		if v, ok := x.info().Uses[f].(*types.Var); ok {
			if l, ok := x.top().litVars[v]; ok {
				return l
			}
		}
	}
	return nil
}

// ---- interface method calls ----

func (x *Exec) callInterfaceMethod(call *ast.CallExpr, fn *types.Func, recv Term, recvT types.Type, st *State) []Term {
	sig := fn.Type().(*types.Signature)
	if why, ok := x.maybeNil[recv.S]; ok {
		x.safety(st, "nil-deref", not(eq(recv, intLit(0))), "method call on a value that "+why+" may return as nil: "+x.exprString(call.Fun), call.Pos())
	}
	args := x.evalArgs(call, sig, st)
	if isErrorMethod(fn) {
		return []Term{x.ctx.App("errorString", SStr, recv)}
	}
	// methods of interfaces declared in the repository or in pure external packages are
	// pure uninterpreted functions of the dynamic value (assumption: implementations are pure)
	eff := x.externalEffect(fn)
	if isRepoObj(fn) {
		eff = effPure
		if c := x.ifaceMethodContract(fn); c != nil {
			return x.callContract(call, c, fn, &recv, args, st)
		}
	} else if lit := isForEachLit(call); lit != nil {
		x.siteObligations(call, fn, &recv, args, st)
		r := x.execForEach(call, lit, recv, st)
		x.noteLastErr(st, fn, r)
		return r
	}
	return x.applyExternal(call, fn, eff, &recv, args, st)
}

func isErrorMethod(fn *types.Func) bool {
	return fn.Name() == "Error" && fn.Pkg() == nil
}

func isRepoObj(o types.Object) bool {
	return o.Pkg() != nil && isRepoPath(o.Pkg().Path())
}

func (x *Exec) ifaceMethodContract(fn *types.Func) *Contract { return nil }

// ---- inlining ----

const maxInlineDepth = 8

func (x *Exec) inline(call *ast.CallExpr, fi *FuncInfo, fn *types.Func, recv *Term, args []Term, st *State) []Term {
	if len(x.frames) > maxInlineDepth || (fi.Obj != nil && x.inlineSeen[fi.Obj] > 0) {
		// recursive or too deep: abstract
		st.approx = append(st.approx, "call to "+fi.Name+" abstracted (recursive or too deep)")
		x.havocAll(st)
		var out []Term
		for i := 0; i < fi.Sig.Results().Len(); i++ {
			out = append(out, x.ctx.Fresh("abs", x.sortOf(fi.Sig.Results().At(i).Type())))
		}
		return out
	}
	if fi.Obj != nil {
		x.inlineSeen[fi.Obj]++
		defer func() { x.inlineSeen[fi.Obj]-- }()
	}
	x.noteInlined(fi)
	fr := &frame{fi: fi, pkg: fi.Pkg, depth: len(x.frames)}
	// type arguments of a generic callee
	savedTenv := x.tenv
	if fn != nil {
		if inst, ok := x.info().Instances[calleeIdent(call)]; ok && inst.TypeArgs != nil {
			tp := fn.Origin().Type().(*types.Signature).TypeParams()
			ne := typeEnv{}
			for k, v := range x.tenv {
				ne[k] = v
			}
			for i := 0; i < tp.Len() && i < inst.TypeArgs.Len(); i++ {
				ne[tp.At(i)] = x.substDeep(inst.TypeArgs.At(i))
			}
			x.tenv = ne
		}
	}
	defer func() { x.tenv = savedTenv }()
	x.frames = append(x.frames, fr)
	defer func() { x.frames = x.frames[:len(x.frames)-1] }()
	x.computeBoxed(fi)
	entry := st.clone()
	x.bindParams(fr, fi, recv, args, st)
	fl := x.execBlock(fi.Body().List, st)
	if fl.normal != nil {
		// fell off the end
		x.doReturn(fr, fl.normal, nil, fi.Body().End())
	}
	var rstates []*State
	for _, r := range fr.returns {
		rstates = append(rstates, r.st)
	}
	if len(rstates) == 0 {
		panic(pathEnd{})
	}
	j := x.join(entry, rstates)
	*st = *j
	var out []Term
	for _, rv := range fr.results {
		out = append(out, st.vars[rv])
		delete(st.vars, rv)
	}
	// the callee's own variables go out of scope
	for v := range st.vars {
		if v.Pos() >= fi.FuncType().Pos() && v.Pos() <= fi.Body().End() && fi.Pkg.Fset.File(v.Pos()) == fi.Pkg.Fset.File(fi.Body().Pos()) {
			if _, mine := entry.vars[v]; !mine {
				delete(st.vars, v)
			}
		}
	}
	if rv := x.recvVarOf(fi); rv != nil {
		if _, mine := entry.vars[rv]; !mine {
			delete(st.vars, rv)
		}
	}
	return out
}

func calleeIdent(call *ast.CallExpr) *ast.Ident {
	switch f := ast.Unparen(call.Fun).(type) {
	case *ast.Ident:
		return f
	case *ast.SelectorExpr:
		return f.Sel
	case *ast.IndexExpr:
		switch g := f.X.(type) {
		case *ast.Ident:
			return g
		case *ast.SelectorExpr:
			return g.Sel
		}
	}
	return nil
}

func (x *Exec) noteInlined(fi *FuncInfo) {
	for _, n := range x.inlined {
		if n == fi.Name {
			return
		}
	}
	x.inlined = append(x.inlined, fi.Name)
}

// bindParams introduces receiver, parameters and result variables of fi in st.
func (x *Exec) bindParams(fr *frame, fi *FuncInfo, recv *Term, args []Term, st *State) {
	sig := fi.Sig
	if r := sig.Recv(); r != nil && recv != nil {
		if rv := x.recvVarOf(fi); rv != nil {
			x.declVar(st, rv, *recv)
		}
	}
	// parameters: walk the AST field list to find the *types.Var objects
	idx := 0
	for _, fld := range fi.FuncType().Params.List {
		if len(fld.Names) == 0 {
			idx++
			continue
		}
		for _, n := range fld.Names {
			if v, ok := fi.Pkg.TypesInfo.Defs[n].(*types.Var); ok && n.Name != "_" && idx < len(args) {
				x.declVar(st, v, args[idx])
			}
			idx++
		}
	}
	// results
	fr.results = nil
	if fi.FuncType().Results != nil {
		for _, fld := range fi.FuncType().Results.List {
			if len(fld.Names) == 0 {
				t := fi.Pkg.TypesInfo.TypeOf(fld.Type)
				fr.results = append(fr.results, types.NewVar(token.NoPos, fi.Pkg.Types, fmt.Sprintf("result%d", len(fr.results)), t))
				continue
			}
			for _, n := range fld.Names {
				v, _ := fi.Pkg.TypesInfo.Defs[n].(*types.Var)
				if v == nil || n.Name == "_" {
					v = types.NewVar(token.NoPos, fi.Pkg.Types, fmt.Sprintf("result%d", len(fr.results)), fi.Pkg.TypesInfo.TypeOf(fld.Type))
				} else {
					fr.namedResults = true
					x.declVar(st, v, x.zero(v.Type()))
				}
				fr.results = append(fr.results, v)
			}
		}
	}
}

func (x *Exec) recvVarOf(fi *FuncInfo) *types.Var {
	if fi.Decl == nil || fi.Decl.Recv == nil || len(fi.Decl.Recv.List) == 0 || len(fi.Decl.Recv.List[0].Names) == 0 {
		return nil
	}
	n := fi.Decl.Recv.List[0].Names[0]
	if n.Name == "_" {
		return nil
	}
	v, _ := fi.Pkg.TypesInfo.Defs[n].(*types.Var)
	return v
}

// computeBoxed marks the locals of fi whose address is taken (they live in the heap).
func (x *Exec) computeBoxed(fi *FuncInfo) {
	if x.boxedDone[fi] {
		return
	}
	x.boxedDone[fi] = true
	info := fi.Pkg.TypesInfo
	mark := func(e ast.Expr) {
		for {
			switch t := e.(type) {
			case *ast.ParenExpr:
				e = t.X
				continue
			case *ast.SelectorExpr:
				// &x.f or x.f.M(): x must be addressable storage only if x is a struct value
				if sel, ok := info.Selections[t]; ok && sel.Kind() == types.FieldVal {
					if _, isPtr := info.TypeOf(t.X).Underlying().(*types.Pointer); isPtr {
						return
					}
					e = t.X
					continue
				}
				return
			case *ast.Ident:
				if v, ok := info.Uses[t].(*types.Var); ok && !x.isGlobal(v) && !isLogType(v.Type()) {
					x.boxed[v] = true
				}
				return
			default:
				return
			}
		}
	}
	ast.Inspect(fi.Body(), func(n ast.Node) bool {
		switch n := n.(type) {
		case *ast.UnaryExpr:
			if n.Op == token.AND {
				if _, isLit := ast.Unparen(n.X).(*ast.CompositeLit); !isLit {
					if id, ok := ast.Unparen(n.X).(*ast.Ident); ok {
						mark(id)
					}
				}
			}
		case *ast.CallExpr:
			if se, ok := n.Fun.(*ast.SelectorExpr); ok {
				if sel, ok := info.Selections[se]; ok && sel.Kind() == types.MethodVal {
					if fn, ok := sel.Obj().(*types.Func); ok {
						if rs := fn.Type().(*types.Signature).Recv(); rs != nil {
							_, wantPtr := rs.Type().Underlying().(*types.Pointer)
							_, havePtr := info.TypeOf(se.X).Underlying().(*types.Pointer)
							if wantPtr && !havePtr && !isInterface(rs.Type()) && len(sel.Index()) == 1 {
								if id, ok := ast.Unparen(se.X).(*ast.Ident); ok {
									mark(id)
								}
							}
						}
					}
				}
			}
		case *ast.FuncLit:
			// variables captured by closures and assigned inside them are shared
			ast.Inspect(n.Body, func(m ast.Node) bool {
				if as, ok := m.(*ast.AssignStmt); ok && as.Tok != token.DEFINE {
					for _, l := range as.Lhs {
						if id, ok := l.(*ast.Ident); ok {
							if v, ok := info.Uses[id].(*types.Var); ok && !x.isGlobal(v) && !(v.Pos() >= n.Pos() && v.Pos() <= n.End()) {
								x.boxed[v] = true
							}
						}
					}
				}
				return true
			})
		}
		return true
	})
	// literals bound once to a local (f := func(){...}) can be inlined at calls
}

// ---- return ----

func (x *Exec) execReturn(s *ast.ReturnStmt, st *State) {
	fr := x.top()
	var vals []Term
	if len(s.Results) == 0 {
		if fr.namedResults {
			for _, rv := range fr.results {
				vals = append(vals, x.loadVar(st, rv))
			}
		}
	} else if len(s.Results) == 1 && len(fr.results) > 1 {
		vals = x.evalMulti(s.Results[0], st, len(fr.results))
		if tup, ok := x.info().TypeOf(s.Results[0]).(*types.Tuple); ok {
			for i := range vals {
				vals[i] = x.convertNil(st, vals[i], tup.At(i).Type(), fr.results[i].Type())
			}
		}
	} else {
		for i, r := range s.Results {
			v := x.eval(r, st)
			vals = append(vals, x.convertNil(st, v, x.info().TypeOf(r), fr.results[i].Type()))
		}
	}
	x.doReturn(fr, st, vals, s.Pos())
}

// doReturn completes a return: result variables are set, deferred calls run, and either the
// return state is recorded (inlined frames) or the postconditions are emitted (top frame).
func (x *Exec) doReturn(fr *frame, st *State, vals []Term, pos token.Pos) {
	for i, rv := range fr.results {
		if i < len(vals) {
			if x.boxed[rv] {
				x.storeVar(st, rv, vals[i])
			} else {
				st.vars[rv] = x.name(st, rv.Name(), vals[i])
			}
		} else if _, ok := st.vars[rv]; !ok {
			st.vars[rv] = x.zero(rv.Type())
		}
	}
	// deferred calls, LIFO
	defs := fr.deferred
	for i := len(defs) - 1; i >= 0; i-- {
		c := defs[i]
		alive := x.tryPath(func() { x.evalCall(c, st) })
		if !alive {
			return
		}
	}
	// named results may have been changed by deferred closures; read them back
	for _, rv := range fr.results {
		if x.boxed[rv] {
			st.vars[rv] = x.loadVar(st, rv)
			_ = rv
		}
	}
	if fr.top {
		x.checkPost(st, fr, pos)
		return
	}
	fr.returns = append(fr.returns, &retState{st: st})
}

// applySites: obligations of "site $apply: e" clauses, checked at every call through a function value
// ($fn is the function value, $0.. its arguments).
func (x *Exec) applySites(st *State, f Term, sig *types.Signature, args []Term, pos token.Pos) {
	if x.contract == nil {
		return
	}
	for _, s := range x.contract.Sites {
		if s.Site != "$apply" {
			continue
		}
		env := x.funcEnv(st)
		env.locals = true
		env.binds["$fn"] = bound{f, sig}
		for i, a := range args {
			if i < sig.Params().Len() {
				t := sig.Params().At(i).Type()
				env.binds[fmt.Sprintf("$%d", i)] = bound{a, t}
			}
		}
		g := x.specBool(env, s)
		o := x.emit(st, "site", s.Site+labelSuffix(s.Label), g, s.Props, "at every call through a function value: "+s.Text, pos)
		o.ClauseText = s.Text
		x.siteCount[s.Site]++
	}
}

// appendArr: the backing array of append(s, ...). Appending nothing returns s itself; otherwise the
// elements go into s's array when its capacity suffices (not modelled: an unknown boolean) and into a
// newly allocated one when it does not, which is always the case for a slice without an array.
func (x *Exec) appendArr(st *State, s Term, grows Term) Term {
	old := x.sliceArr(s)
	if grows.S == "false" {
		return old
	}
	fresh := x.allocRef(st, "array")
	roomy := x.ctx.Fresh("roomy", SBool)
	return ite(grows, ite(and(roomy, not(eq(old, intLit(0)))), old, fresh), old)
}
