// Package m is the fixed corpus of interfaces whose generated mocks are verified instance-wise
// (DESIGN.md 5). Standard library only, so that generation and loading work offline.
package m

import (
	"context"
	"io"
)

// Simple: one parameter, one result.
type Simple interface {
	Get(id int) string
}

// Multi: several methods, several parameters and results, error in the last and not the last place.
type Multi interface {
	Do(ctx context.Context, name string, n int) (int, error)
	NoArgs()
	NoRet(x []byte)
	TwoRet() (a string, b error)
	ErrFirst(p *int) (error, bool)
}

// Variadic: trailing variadic parameters of interface and of basic type.
type Variadic interface {
	Printf(format string, args ...any) (int, error)
	Only(xs ...int)
	Anys(vs ...any)
	Strs(prefix string, ss ...string) []string
}

// Funcs: function, map, channel, slice and pointer types.
type Funcs interface {
	Apply(f func(int) bool, m map[string][]int) chan<- int
	Ptrs(a *Simple, b []*int) *string
}

// Generic: type parameters with constraints.
type Generic[T any, K ~int | ~string] interface {
	Put(k K, v T) bool
	Lookup(k K) (T, bool)
}

// Embeds: embedded interfaces from this and another package.
type Embeds interface {
	io.Reader
	Simple
}

// Unnamed: unnamed parameters and results (names are generated).
type Unnamed interface {
	M(int, string) (bool, error)
}

// Shadow: method and parameter names close to identifiers the templates use (those that make the
// generated file fail to compile are in the package bad, as known findings of C01).
type Shadow interface {
	Mocks(mocks int, calls string) int
	Lock(lockLock bool, ret bool) (okay bool)
	Run(run func(), _a0 int, retFunc string) error
	// (finding D12b, repaired: these two names used to be shadowed by locals of the testify template)
	Check(ok bool) bool
	Named(returnFunc string, ret int) error
	// (finding D28, repaired: these two names used to collide with the receiver and a local of the matryer template)
	Register(mock int, callInfo string) int
}
