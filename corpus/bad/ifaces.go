// Package bad: shapes of interfaces for which a built-in template is known to produce a file that does
// not compile (known findings of C01; each interface is generated on its own).
package bad

// ParamNamedMock: a parameter named like the matryer template's receiver.
type ParamNamedMock interface {
	Register(mock int) int
}

// MethodNamedMock: a method named like the embedded testify field.
type MethodNamedMock interface {
	Mock(x int) int
}

// ParamNamedReturnFunc: a parameter named like a local the testify template declares.
type ParamNamedReturnFunc interface {
	Run(returnFunc string) error
}

// ComparableConstraint: the matryer ensure-line instantiates the mock with the constraint itself.
type ComparableConstraint[K comparable] interface {
	Has(k K) bool
}
