// Known finding of C01 (D19; matryer, mock generated into another package, formatter gofmt or noop):
// the rendered file imports fmt without using it and refers to the source package in its ensure line
// without importing it; only goimports (the default formatter) repairs both.
package bad

type Simple interface {
	Get(id int) string
}
