// Known finding of C01 (matryer, skip-ensure unset): the ensure line instantiates the mock with the
// constraint itself ("var _ I[comparable] = &MoqI[comparable]{}").
package bad

type ComparableConstraint[K comparable] interface {
	Has(k K) bool
}
