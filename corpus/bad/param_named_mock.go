// Known finding of C01 (matryer): a parameter named like the template's receiver ("mock").
package bad

type ParamNamedMock interface {
	Register(mock int) int
}
