// Known finding of C01 (testify): a parameter named like a local the template declares ("returnFunc").
package bad

type ParamNamedReturnFunc interface {
	Run(returnFunc string) error
}
