// Known finding of C01 (testify): a method named like the embedded testify field ("Mock").
package bad

type MethodNamedMock interface {
	Mock(x int) int
}
