// Package w: a second, wider corpus (thorough tier): struct, anonymous struct, channel, function,
// instantiated generic, unsafe, blank, array and named-result shapes; imports another package of the module.
package w

import (
	"context"
	"io"
	"net/http"
	"time"
	"unsafe"

	"example.com/corpus/other"
)

type Local struct{ N int }
type LocalFn func(int) string

type Wide interface {
	Structs(a Local, b *Local, c []Local, d map[other.Key]Local) (Local, *Local)
	Anon(s struct{ X, Y int }, f func(struct{ Z string }) bool) struct{ Ok bool }
	Chans(in <-chan int, out chan<- string, both chan struct{}) <-chan error
	Funcs(h other.Handler, l LocalFn, g func(ctx context.Context, w http.ResponseWriter) (int, error)) LocalFn
	Generic(p other.Pair[string, int], q other.Pair[*Local, []other.Key]) other.Pair[other.Key, error]
	Unsafe(p unsafe.Pointer, d time.Duration) uintptr
	Blank(_ int, _ string) (_ error)
	ManyResults() (a, b, c int, s string, err error)
	VariadicFunc(fs ...func(int) error) error
	VariadicIface(rs ...io.Reader) (n int)
	Arrays(a [4]int, b [2][]string) [3]byte
	NamedResults(x int) (res int, err error)
}
