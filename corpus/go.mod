module example.com/corpus

go 1.23
