// Package foo: one of six packages with the same name (determinism corpus, C06).
package foo

type T4 struct{ N int }
