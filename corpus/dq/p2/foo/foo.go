// Package foo: one of six packages with the same name (determinism corpus, C06).
package foo

type T2 struct{ N int }
