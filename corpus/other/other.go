package other

type Key string
type Pair[A any, B any] struct {
	A A
	B B
}
type Handler func(Key) error
