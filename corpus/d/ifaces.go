// Determinism corpus (C06): one signature that mentions six packages with the same package name, so that
// the aliases foo, foo0, foo1, ... are handed out in the order the packages are first met; two interfaces
// in one file, one of them generic.

package d

import (
	f1 "example.com/corpus/dq/p1/foo"
	f2 "example.com/corpus/dq/p2/foo"
	f3 "example.com/corpus/dq/p3/foo"
	f4 "example.com/corpus/dq/p4/foo"
	f5 "example.com/corpus/dq/p5/foo"
	f6 "example.com/corpus/dq/p6/foo"
)

type Mixer interface {
	Mix(f func(map[f1.T1]f2.T2, chan f3.T3) (f4.T4, []f5.T5, *f6.T6)) error
	Again(a f6.T6, b f5.T5) (f1.T1, error)
}

type Holder[K comparable, V any] interface {
	Put(k K, v V, extra f3.T3) f2.T2
	Get(k K) (V, bool)
}
