// Second source file of the determinism corpus (C06): its name sorts after the generated mocks_gen.go, so a
// re-run that mis-pairs files and syntax trees after skipping generated files loses this interface.

package d

import f2 "example.com/corpus/dq/p2/foo"

type Later interface {
	Last(x f2.T2) (string, error)
}
